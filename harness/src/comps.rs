//! Projection from a parsed field value (its JSON) onto the top-level components of the field's format in
//! FieldFormats.tla: which JSON key holds which component, and how the written characters read as a value.
//! This is the binding table of the component check (C03: "the parsed model exposes exactly the component
//! values that were written"); it is written from the documented meaning of the struct members, not derived
//! from what the parsers do.

use serde_json::Value;

#[derive(Clone, Copy, Debug, PartialEq)]
pub enum Kind {
    /// the characters themselves (a leading "/" or "//" of the notation and a trailing line break are not part of the value)
    Str,
    /// party identifier line: the value may be kept with or without its leading slash
    Party,
    /// lines of text
    Lines,
    /// numbered lines "1/..." kept as written
    Date,
    /// six digits kept as digits
    Raw,
    Amount,
    /// amount whose sign is carried elsewhere (37H): compared in absolute value
    AbsAmount,
    Int,
    /// presence flag: a present component makes the member true
    Flag,
}

/// (1-based index of the top-level component, JSON key, kind)
pub type Binding = (usize, &'static str, Kind);

pub fn bindings(tag: &str) -> &'static [Binding] {
    use Kind::*;
    const BAL: &[Binding] = &[(1, "debit_credit_mark", Str), (2, "value_date", Date), (3, "currency", Str), (4, "amount", Amount)];
    const DCA: &[Binding] = &[(1, "value_date", Date), (2, "currency", Str), (3, "amount", Amount)];
    const CA: &[Binding] = &[(1, "currency", Str), (2, "amount", Amount)];
    const REF: &[Binding] = &[(1, "reference", Str)];
    const PA: &[Binding] = &[(1, "party_identifier", Party), (2, "bic", Str)];
    const PD: &[Binding] = &[(1, "party_identifier", Party), (2, "name_and_address", Lines)];
    const PC: &[Binding] = &[(2, "party_identifier", Str)];
    match tag {
        "11" => &[(1, "message_type", Str), (2, "date", Date)],
        "12" | "26T" => &[(1, "type_code", Str)],
        "13C" => &[(2, "code", Str), (4, "time", Str), (5, "sign", Str), (6, "offset", Str)],
        "13D" => &[(1, "date", Raw), (2, "time", Str), (3, "offset_sign", Str), (4, "offset", Str)],
        "20" | "21" | "21C" | "21D" | "21E" | "21F" | "21R" => REF,
        "23B" => &[(1, "instruction_code", Str)],
        "23E" => &[(1, "instruction_code", Str), (2, "additional_info", Str)],
        "25" => &[(1, "authorisation", Str)],
        "25A" => &[(2, "account", Str)],
        "25P" => &[(1, "account", Str), (3, "bic", Str)],
        "28" | "28C" => &[(1, "statement_number", Int), (2, "sequence_number", Int)],
        "28D" => &[(1, "index", Int), (3, "total", Int)],
        "30" => &[(1, "execution_date", Date)],
        "32A" | "32C" | "32D" => DCA,
        "32B" | "33B" | "71F" | "71G" => CA,
        "34F" => &[(1, "currency", Str), (2, "indicator", Str), (3, "amount", Amount)],
        "50" => &[(1, "name_and_address", Lines)],
        "50A" => &[(1, "party_identifier", Str)],
        "50C" => &[(1, "bic", Str)],
        "50F" => &[(1, "account", Str), (3, "party_identifier", Str), (4, "name_and_address", Lines), (5, "bic", Str)],
        "50G" => &[(2, "account", Str), (4, "bic", Str)],
        "50H" => &[(2, "account", Str), (4, "name_and_address", Lines)],
        "50K" | "59" => &[(1, "account", Str), (2, "name_and_address", Lines)],
        "50L" => &[(1, "party_identifier", Str)],
        "51A" | "52A" | "53A" | "54A" | "55A" | "56A" | "57A" | "58A" => PA,
        "52C" | "56C" | "57C" => PC,
        "52D" | "53D" | "54D" | "55D" | "56D" | "57D" | "58D" => PD,
        "59A" => &[(1, "account", Str), (2, "bic", Str)],
        "59F" => &[(1, "party_identifier", Str), (2, "name_and_address", Lines)],
        "60F" | "60M" | "62F" | "62M" | "64" | "65" => BAL,
        "61" => &[(1, "value_date", Date), (2, "entry_date", Str), (3, "debit_credit_mark", Str), (4, "funds_code", Str), (5, "amount", Amount),
                  (8, "customer_reference", Str), (9, "bank_reference", Str), (10, "supplementary_details", Str)],
        "70" | "77A" | "77B" | "86" => &[(1, "narrative", Lines)],
        "71A" => &[(1, "code", Str)],
        "71B" => &[(1, "details", Lines)],
        "72" | "75" | "76" | "79" => &[(1, "information", Lines)],
        "19" => &[(1, "amount", Amount)],
        "36" => &[(1, "rate", Amount)],
        "37H" => &[(1, "rate_indicator", Str), (2, "is_negative", Flag), (3, "rate", AbsAmount)],
        "90C" | "90D" => &[(1, "number", Int), (2, "currency", Str), (3, "amount", Amount)],
        _ => &[],
    }
}

fn strip_notation(s: &str) -> &str {
    let s = s.strip_suffix('\n').unwrap_or(s);
    let s = s.strip_prefix('\n').unwrap_or(s);
    let s = s.strip_prefix("//").unwrap_or(s);
    s.strip_prefix('/').unwrap_or(s)
}

fn dec(s: &str) -> Option<f64> {
    s.replace(',', ".").trim_end_matches('.').parse::<f64>().ok()
}

/// None = the member holds what was written; Some(why) otherwise
pub fn differs(kind: Kind, part: &str, got: Option<&Value>) -> Option<String> {
    let absent = got.map(|v| v.is_null()).unwrap_or(true);
    if part.is_empty() {
        return match kind {
            Kind::Flag => if got.and_then(|v| v.as_bool()).unwrap_or(false) { Some("flag set though the component is absent".into()) } else { None },
            Kind::Lines => if absent || got.and_then(|v| v.as_array()).map(|a| a.is_empty()).unwrap_or(false) { None } else { Some(format!("absent component, member holds {}", got.unwrap())) },
            // a member that is a plain string holds "" for an absent component
            Kind::Str | Kind::Party | Kind::Raw => if absent || got.and_then(|v| v.as_str()) == Some("") { None } else { Some(format!("absent component, member holds {}", got.unwrap())) },
            _ => if absent { None } else { Some(format!("absent component, member holds {}", got.unwrap())) },
        };
    }
    let got = match got { Some(v) if !v.is_null() => v, _ => return Some("member absent though the component was written".into()) };
    let ok = match kind {
        Kind::Str => got.as_str() == Some(strip_notation(part)),
        Kind::Party => {
            let w = part.strip_suffix('\n').unwrap_or(part);
            got.as_str().map(|g| g == w || Some(g) == w.strip_prefix('/')).unwrap_or(false)
        }
        Kind::Lines => {
            let w: Vec<&str> = part.strip_suffix('\n').unwrap_or(part).split('\n').collect();
            got.as_array().map(|a| a.len() == w.len() && a.iter().zip(w.iter()).all(|(x, y)| x.as_str() == Some(*y))).unwrap_or(false)
        }
        Kind::Date => {
            if part.len() != 6 || !part.bytes().all(|b| b.is_ascii_digit()) { return None; }
            let yy: u32 = part[0..2].parse().unwrap_or(0);
            let iso = format!("{}-{}-{}", if yy <= 49 { 2000 + yy } else { 1900 + yy }, &part[2..4], &part[4..6]);
            got.as_str() == Some(iso.as_str())
        }
        Kind::Raw => got.as_str() == Some(part),
        Kind::Amount => match (dec(part), got.as_f64()) { (Some(a), Some(b)) => a == b, _ => false },
        Kind::AbsAmount => match (dec(part), got.as_f64()) { (Some(a), Some(b)) => a == b.abs(), _ => false },
        Kind::Int => {
            let w = strip_notation(part);
            match (w.parse::<u64>().ok(), got.as_u64()) { (Some(a), Some(b)) => a == b, _ => false }
        }
        Kind::Flag => got.as_bool() == Some(true),
    };
    if ok { None } else { Some(format!("written {:?}, member holds {}", part, got)) }
}
