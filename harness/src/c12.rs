//! C12: message-type dispatch across the typed API, auto-detection, the wrapper enum and
//! the parse / publish / validate plugin functions.

use crate::msgcheck::{Contents, block4_text, concretise, parse_case};
use crate::plugins::run_plugin;
use crate::registry::MESSAGE_TYPES;
use crate::session;
use crate::util::*;
use serde_json::{Value, json};
use std::collections::BTreeMap;
use std::io::BufRead;

fn message(announced: &str, block4: &str) -> String {
    message_dir(announced, block4, "I")
}

/// the same message under an input or an output application header
fn message_dir(announced: &str, block4: &str, dir: &str) -> String {
    if dir == "O" {
        format!("{{1:F01BANKBEBBAXXX0000000000}}{{2:O{}1158240718BANKBEBBAXXX43210987652407191301N}}{{4:{}-}}", announced, block4)
    } else {
        format!("{{1:F01BANKBEBBAXXX0000000000}}{{2:I{}BANKDEFFXXXXN}}{{4:{}-}}", announced, block4)
    }
}

fn is_unsupported(err: &str) -> bool {
    let l = err.to_lowercase();
    l.contains("unsupported")
}

fn is_mismatch(err: &str) -> bool {
    err.contains("T03") || err.to_lowercase().contains("mismatch") || err.contains("WrongMessageType")
}

pub fn run(args: &[String]) -> i32 {
    let cases = arg(args, "--cases").expect("--cases");
    let walks = arg(args, "--walks").expect("--walks");
    let out_path = arg(args, "--out").expect("--out");
    let (contents, _) = Contents::load(&arg(args, "--contents").map(|s| s.to_string()).unwrap_or_else(crate::util::contents_default));

    // bodies per type from the generated walks (kept only if the typed API accepts them)
    let mut bodies: BTreeMap<String, Vec<(Value, String)>> = BTreeMap::new();
    let wf = std::io::BufReader::new(std::fs::File::open(walks).expect("walks"));
    for line in wf.lines().map_while(|l| l.ok()) {
        let v: Value = match serde_json::from_str(&line) { Ok(v) => v, Err(_) => continue };
        let c = parse_case(v);
        if !c.muts.is_empty() || c.verdict != "accept" {
            continue;
        }
        if let Some(f) = concretise(&contents, &c.toks, 0) {
            let b4 = block4_text(&f);
            if session::typed(&c.mt, &message(&c.mt, &b4)).is_ok() {
                bodies.entry(c.mt.clone()).or_default().push((c.raw.clone(), b4));
            }
        }
    }
    let mut violations: Vec<Value> = Vec::new();
    let mut evaluated = 0u64;
    let mut diag = 0u64;
    let mut samples: Vec<Value> = Vec::new();
    let mut missing_body: Vec<String> = Vec::new();
    for t in MESSAGE_TYPES {
        if !bodies.contains_key(*t) {
            missing_body.push(t.to_string());
        }
    }
    let mut push = |violations: &mut Vec<Value>, sig: String, text: &str, detail: Value| {
        violations.push(json!({"sig": sig, "replay": {"kind": "dispatch", "text": text, "detail": detail}}));
    };

    // ---------------- the diagonal: every walk through every entry point ----------------
    for (t, list) in &bodies {
        for (case, b4) in list {
            let text = message(t, b4);
            let ty = match session::typed(t, &text) { Ok(x) => x, Err(_) => continue };
            diag += 1;
            // auto + wrapper
            match session::auto(&text) {
                Ok(a) => {
                    if a.message_type != *t {
                        push(&mut violations, format!("C12|auto|MT{}|parsed-as:{}", t, a.message_type), &text, json!({"case": case}));
                    } else if a.json != ty.json {
                        push(&mut violations, format!("C12|auto|MT{}|value-differs-from-typed", t), &text, json!({"case": case}));
                    }
                    if a.validate != ty.msg_validate {
                        push(&mut violations, format!("C12|wrapper|MT{}|validate-differs-from-typed", t), &text, json!({"case": case, "wrapper": a.validate.1, "typed": ty.msg_validate.1}));
                    }
                    // the wrapper's JSON carries the announced type as its tag and is read back as that type
                    if a.json_tag != *t {
                        push(&mut violations, format!("C12|wrapper-json|MT{}|tagged-as:{}", t, a.json_tag), &text, json!({"case": case}));
                    }
                    match &a.json_back {
                        Ok(back) if back == t => {}
                        Ok(back) => push(&mut violations, format!("C12|wrapper-json|MT{}|read-back-as:{}", t, back), &text, json!({"case": case})),
                        Err(e) => push(&mut violations, format!("C12|wrapper-json|MT{}|not-read-back", t), &text, json!({"case": case, "err": e})),
                    }
                }
                Err(e) => push(&mut violations, format!("C12|auto|MT{}|failed", t), &text, json!({"case": case, "err": e})),
            }
            // the error-collecting twin of the typed API
            match session::typed_collect(t, &text) {
                Ok((j, mt_text, nerr)) => {
                    if j != ty.json || mt_text != ty.mt {
                        push(&mut violations, format!("C12|typedCollect|MT{}|value-differs-from-typed", t), &text, json!({"case": case}));
                    } else if nerr > 0 {
                        push(&mut violations, format!("C12|typedCollect|MT{}|errors-collected-where-typed-has-none", t), &text, json!({"case": case, "n": nerr}));
                    }
                }
                Err(e) => push(&mut violations, format!("C12|typedCollect|MT{}|failed", t), &text, json!({"case": case, "err": e})),
            }
            // plugin parse
            let r = run_plugin("parse_mt", json!({"mt": text}), json!({"source": "mt", "target": "out"}));
            if !r.ok {
                push(&mut violations, format!("C12|pluginParse|MT{}|failed", t), &text, json!({"err": r.err}));
            } else {
                if r.metadata["out"]["message_type"].as_str() != Some(t.as_str()) {
                    push(&mut violations, format!("C12|pluginParse|MT{}|reported-type:{}", t, r.metadata["out"]["message_type"]), &text, json!({}));
                }
                if r.data["out"] != ty.json {
                    push(&mut violations, format!("C12|pluginParse|MT{}|value-differs-from-typed", t), &text, json!({"case": case}));
                }
            }
            // plugin validate
            let r = run_plugin("validate_mt", json!({"mt": text}), json!({"source": "mt", "target": "out"}));
            if !r.ok {
                push(&mut violations, format!("C12|pluginValidate|MT{}|failed", t), &text, json!({"err": r.err}));
            } else {
                let valid = r.data["out"]["valid"].as_bool().unwrap_or(false);
                let n = r.data["out"]["errors"].as_array().map(|a| a.len()).unwrap_or(0);
                if valid != ty.full.is_empty() || n != ty.full.len() || r.data["out"]["message_type"].as_str() != Some(t.as_str()) {
                    push(&mut violations, format!("C12|pluginValidate|MT{}|verdict-differs-from-typed", t), &text, json!({"plugin": r.data["out"], "typed": ty.full.iter().map(|e| e.0.clone()).collect::<Vec<_>>()}));
                }
            }
            // plugin publish
            let r = run_plugin("publish_mt", json!({"json": ty.json}), json!({"source": "json", "target": "out"}));
            if !r.ok {
                push(&mut violations, format!("C12|pluginPublish|MT{}|failed", t), &text, json!({"err": r.err.chars().take(300).collect::<String>()}));
            } else if r.data["out"].as_str() != Some(ty.mt.as_str()) {
                push(&mut violations, format!("C12|pluginPublish|MT{}|text-differs-from-typed", t), &text, json!({"plugin": r.data["out"], "typed": ty.mt}));
            }
            if samples.len() < 3 {
                samples.push(json!({"diagonal": case, "text": text}));
            }
        }
    }

    // ---------------- the (announced, requested, entry point) table ----------------------
    let default_body = bodies.get("103").and_then(|l| l.first()).map(|x| x.1.clone()).unwrap_or_default();
    let default_json = session::typed("103", &message("103", &default_body)).ok().map(|t| t.json);
    let f = std::io::BufReader::new(std::fs::File::open(cases).expect("cases"));
    for line in f.lines().map_while(|l| l.ok()) {
        let v: Value = match serde_json::from_str(&line) { Ok(v) => v, Err(_) => continue };
        let ep = v["ep"].as_str().unwrap_or("");
        let a = format!("{:03}", v["a"].as_u64().unwrap_or(0));
        let r = format!("{:03}", v["r"].as_u64().unwrap_or(0));
        let want = v["out"].as_str().unwrap_or("");
        let dir = v["dir"].as_str().unwrap_or("I");
        let message = |a: &str, b4: &str| message_dir(a, b4, dir);
        let a_supported = MESSAGE_TYPES.contains(&a.as_str());
        let aclass = if a_supported { format!("MT{}", a) } else { "unsupported-code".to_string() };
        evaluated += 1;
        match ep {
            "typed" | "typedCollect" => {
                // header announces a, body is a valid body of a (if any) and, separately, of r
                let mut variants: Vec<String> = Vec::new();
                if let Some(l) = bodies.get(&a) { variants.push(l[0].1.clone()); }
                if let Some(l) = bodies.get(&r) { if a != r { variants.push(l[0].1.clone()); } }
                for b4 in variants {
                    let text = message(&a, &b4);
                    let got: Result<(), String> = if ep == "typed" { session::typed(&r, &text).map(|_| ()) } else { session::typed_collect(&r, &text).map(|_| ()) };
                    match (want, &got) {
                        ("parsed", Ok(_)) => {}
                        ("parsed", Err(e)) => push(&mut violations, format!("C12|{}|MT{}|rejected-own-type", ep, r), &text, json!({"err": e})),
                        ("mismatch", Err(e)) if is_mismatch(e) => {}
                        ("mismatch", Err(e)) => push(&mut violations, format!("C12|{}{}|announced={}|requested=MT{}|not-a-mismatch-error", ep, if dir == "O" { "|output-header" } else { "" }, aclass, r), &text, json!({"err": e})),
                        ("mismatch", Ok(_)) => push(&mut violations, format!("C12|{}{}|announced={}|requested=MT{}|parsed-as-other-type", ep, if dir == "O" { "|output-header" } else { "" }, aclass, r), &text, json!({})),
                        _ => {}
                    }
                }
            }
            "accessor" => {
                // one auto-parse per announced type; the whole row of 30 accessors is judged at requested = announced's row
                let b4 = bodies.get(&a).map(|l| l[0].1.clone()).unwrap_or(default_body.clone());
                let text = message(&a, &b4);
                if want == "unsupported" {
                    if let Ok(row) = session::accessors(&text) {
                        let some: Vec<&str> = row.iter().filter(|x| x.1.is_some()).map(|x| x.0).collect();
                        push(&mut violations, format!("C12|accessor|{}|parsed-as:{:?}", aclass, some), &text, json!({"code": a}));
                    }
                } else {
                    match session::accessors(&text) {
                        Err(e) => push(&mut violations, format!("C12|accessor|MT{}|auto-parse-failed", a), &text, json!({"err": e})),
                        Ok(row) => {
                            let got = row.iter().find(|x| x.0 == r).and_then(|x| x.1.clone());
                            let typed_json = if a == r { session::typed(&a, &text).ok().map(|t| t.json) } else { None };
                            match (want, got) {
                                ("parsed", Some(j)) => {
                                    if Some(&j) != typed_json.as_ref() {
                                        push(&mut violations, format!("C12|accessor|MT{}|as_mt{}-differs-from-typed", a, r), &text, json!({}));
                                    }
                                    match session::accessor_into(&text, &r) {
                                        Ok(Some(j2)) if j2 == j => {}
                                        other => push(&mut violations, format!("C12|accessor|MT{}|into_mt{}-differs-from-as", a, r), &text, json!({"into": format!("{:?}", other).chars().take(200).collect::<String>()})),
                                    }
                                }
                                ("parsed", None) => push(&mut violations, format!("C12|accessor|MT{}|as_mt{}-gives-nothing", a, r), &text, json!({})),
                                ("mismatch", Some(_)) => push(&mut violations, format!("C12|accessor|MT{}|as_mt{}-gives-a-message", a, r), &text, json!({})),
                                ("mismatch", None) => {
                                    if let Ok(Some(_)) = session::accessor_into(&text, &r) {
                                        push(&mut violations, format!("C12|accessor|MT{}|into_mt{}-gives-a-message", a, r), &text, json!({}));
                                    }
                                }
                                _ => {}
                            }
                        }
                    }
                }
            }
            "auto" | "wrapper" => {
                let b4 = bodies.get(&a).map(|l| l[0].1.clone()).unwrap_or(default_body.clone());
                let text = message(&a, &b4);
                match (want, session::auto(&text)) {
                    ("parsed", Ok(i)) if i.message_type == a => {}
                    ("parsed", Ok(i)) => push(&mut violations, format!("C12|{}|MT{}|parsed-as:{}", ep, a, i.message_type), &text, json!({})),
                    ("parsed", Err(e)) => push(&mut violations, format!("C12|{}|MT{}|failed", ep, a), &text, json!({"err": e})),
                    ("unsupported", Err(e)) if is_unsupported(&e) => {}
                    ("unsupported", Err(e)) => push(&mut violations, format!("C12|{}|{}|not-reported-as-unsupported", ep, aclass), &text, json!({"err": e, "code": a})),
                    ("unsupported", Ok(i)) => push(&mut violations, format!("C12|{}|{}|parsed-as:{}", ep, aclass, i.message_type), &text, json!({"code": a})),
                    _ => {}
                }
            }
            "pluginParse" | "pluginValidate" => {
                let b4 = bodies.get(&a).map(|l| l[0].1.clone()).unwrap_or(default_body.clone());
                let text = message(&a, &b4);
                let name = if ep == "pluginParse" { "parse_mt" } else { "validate_mt" };
                let pr = run_plugin(name, json!({"mt": text}), json!({"source": "mt", "target": "out"}));
                let reported = if ep == "pluginParse" { pr.metadata["out"]["message_type"].as_str().map(|s| s.to_string()) } else { pr.data["out"]["message_type"].as_str().map(|s| s.to_string()) };
                let errtext = format!("{} {}", pr.err, pr.data["out"]["errors"]);
                match want {
                    "parsed" => {
                        if !pr.ok || reported.as_deref() != Some(a.as_str()) {
                            push(&mut violations, format!("C12|{}|MT{}|not-treated-as-announced-type:{:?}", ep, a, reported), &text, json!({"err": pr.err}));
                        }
                    }
                    _ => {
                        if reported.is_some() {
                            push(&mut violations, format!("C12|{}|{}|parsed-as:{:?}", ep, aclass, reported), &text, json!({"code": a}));
                        } else if !is_unsupported(&errtext) {
                            push(&mut violations, format!("C12|{}|{}|not-reported-as-unsupported", ep, aclass), &text, json!({"code": a, "err": errtext.chars().take(300).collect::<String>()}));
                        }
                    }
                }
            }
            "pluginPublish" => {
                let json_in = if a_supported {
                    bodies.get(&a).and_then(|l| session::typed(&a, &message(&a, &l[0].1)).ok()).map(|t| t.json)
                } else {
                    default_json.clone().map(|mut j| { j["message_type"] = json!(a); j["application_header"]["message_type"] = json!(a); j })
                };
                if let Some(j) = json_in {
                    let pr = run_plugin("publish_mt", json!({"json": j}), json!({"source": "json", "target": "out"}));
                    match want {
                        "parsed" => if !pr.ok { push(&mut violations, format!("C12|pluginPublish|MT{}|failed", a), "", json!({"err": pr.err.chars().take(300).collect::<String>()})); },
                        _ => {
                            if pr.ok { push(&mut violations, format!("C12|pluginPublish|{}|published-as-some-type", aclass), "", json!({"code": a, "out": pr.data["out"]})); }
                            else if !is_unsupported(&pr.err) { push(&mut violations, format!("C12|pluginPublish|{}|not-reported-as-unsupported", aclass), "", json!({"code": a, "err": pr.err.chars().take(300).collect::<String>()})); }
                        }
                    }
                }
            }
            _ => {}
        }
        if samples.len() < 6 && evaluated % 7001 == 0 {
            samples.push(json!({"table_case": v}));
        }
    }
    std::fs::write(out_path, json!({"evaluated": evaluated, "diagonal_walks": diag, "types_without_body": missing_body,
        "violations": violations, "samples": samples}).to_string()).expect("write");
    0
}
