//! Verification harness for SwiftMTMessage: replays TLC-generated behaviours against the
//! library built from /repo's working tree and records traces for TLC to validate.

mod c04;
mod c05;
mod comps;
mod c06;
mod c07;
mod c08;
mod c10;
mod c11;
mod c12;
mod c13;
mod c14;
mod c15;
mod c16;
mod c17;
mod plugins;
mod msgcheck;
mod registry;
mod session;
mod tok;
mod util;

fn main() {
    util::install_quiet_panic_hook();
    let args: Vec<String> = std::env::args().collect();
    let cmd = args.get(1).map(|s| s.as_str()).unwrap_or("");
    let rest = &args[1.min(args.len())..];
    let code = match cmd {
        "msg" => msgcheck::run(rest),
        "tokens" => c16::run_tokens(rest),
        "tracker" => c16::run_tracker(rest),
        "split" => c16::run_split(rest),
        "classify" => c17::run(rest),
        "dispatch" => c12::run(rest),
        "envelope" => c10::run(rest),
        "amounts" => c06::run(rest),
        "fields" => c05::run(rest),
        "fieldjson" => {
            // the JSON of every typical (unlabelled) content of a FieldFormats case file: a development aid
            use std::io::BufRead;
            let f = std::io::BufReader::new(std::fs::File::open(util::arg(rest, "--cases").expect("--cases")).expect("cases"));
            for line in f.lines().map_while(|l| l.ok()) {
                let c: serde_json::Value = match serde_json::from_str(&line) { Ok(v) => v, Err(_) => continue };
                if c["l"] != "" { continue; }
                let tag = c["tag"].as_str().unwrap_or("");
                let content: String = c["s"].as_array().map(|a| a.iter().filter_map(|x| x.as_str()).collect::<Vec<_>>().concat()).unwrap_or_default();
                if let Some(Ok(o)) = registry::parse_by_tag(tag, &content) {
                    println!("{}\t{}\t{}", tag, content.replace('\n', "\\n"), o.json);
                }
            }
            0
        }
        "rules" => c04::run(rest),
        "variants" => c14::run(rest),
        "json" => c08::run(rest),
        "scenarios" => c15::run(rest),
        "datetime" => c11::run(rest),
        "validate" => c13::run(rest),
        "total" => c07::run(rest),
        "parse1" => {
            // parse one full message (file) as type --mt and print the outcome
            let mt = util::arg(rest, "--mt").expect("--mt");
            let text = std::fs::read_to_string(util::arg(rest, "--file").expect("--file")).expect("read");
            match msgcheck::run_typed(mt, &text, true) {
                Some(o) => {
                    println!("accepted={} panic={:?}", o.accepted, o.panic);
                    println!("err={}", o.err.map(|e| e.to_string()).unwrap_or_default());
                    println!("body:\n{}", o.body_ser);
                    println!("json={}", o.json);
                    if o.accepted {
                        if let Some(o2) = msgcheck::run_typed(mt, &o.msg_ser, false) {
                            println!("json2={}", o2.json);
                            println!("ser2==ser1: {}", o2.msg_ser == o.msg_ser);
                        }
                    }
                    for e in o.events { println!("  {}", e); }
                    0
                }
                None => 2,
            }
        }
        "fieldcheck" => {
            let (_, notes) = msgcheck::Contents::load(&util::arg(rest, "--contents").map(|s| s.to_string()).unwrap_or_else(util::contents_default));
            for n in &notes {
                println!("{}", n);
            }
            if notes.is_empty() { 0 } else { 3 }
        }
        _ => {
            eprintln!("usage: harness <msg|fieldcheck> ...");
            2
        }
    };
    std::process::exit(code);
}
