//! C07: totality. Drives every public entry point with model-derived adversarial inputs under
//! catch_unwind and a per-call time budget, and records one `call` event per invocation for
//! Session.tla. Also measures how the parsing time scales with the input length.

use crate::msgcheck::{Contents, block4_text, concretise_salted, full_message, parse_case};
use crate::plugins::run_plugin;
use crate::registry::{FAMILIES, FIELD_TAGS, parse_by_tag, parse_family};
use crate::util::*;
use crate::with_mt;
use serde_json::{Value, json};
use std::io::{BufRead, Write};
use std::time::Instant;
use swift_mt_message::SwiftMessage;
use swift_mt_message::errors::ParseError;
use swift_mt_message::headers::{ApplicationHeader, BasicHeader, Trailer, UserHeader};
use swift_mt_message::parser::{SwiftParser, extract_block4, extract_field_content, normalize_field_tag, extract_base_tag, parse_block4_fields};
use swift_mt_message::traits::SwiftMessageBody;

const POISON: &[&str] = &["\u{e9}", "\u{ff11}", "\u{0}", "\u{1f600}", "\u{661}"];
const BUDGET_MS: u128 = 2000;
/// (byte width, character): one lower-case letter, upper-case letter, digit and symbol per width --
/// Unicode-aware class tests (is_uppercase, is_alphabetic, is_numeric ...) accept the first three
const WIDE: [(usize, &str); 11] = [
    (2, "\u{e9}"), (2, "\u{c9}"), (2, "\u{661}"), (2, "\u{a7}"),
    (3, "\u{ff41}"), (3, "\u{ff21}"), (3, "\u{ff11}"), (3, "\u{20ac}"),
    (4, "\u{1d400}"), (4, "\u{1d7cf}"), (4, "\u{1f600}"),
];

/// a call that has not returned after this long is a hang (the size ladder's slowest measured call takes 7 s)
const HANG_MS: u128 = 60_000;
/// exit code of the harness when the watchdog ends it
pub const HANG_EXIT: i32 = 42;

/// the call in progress: (operation, begin record of its session, start)
static CURRENT: std::sync::Mutex<Option<(String, Value, Instant)>> = std::sync::Mutex::new(None);

/// A call that never returns cannot be classified after the fact: a watchdog thread ends the process, leaving a
/// record of the call (operation + the session's begin record, which is what `--one` replays) in `hang_path`.
fn start_watchdog(hang_path: String) {
    std::thread::spawn(move || loop {
        std::thread::sleep(std::time::Duration::from_millis(500));
        let cur = CURRENT.lock().map(|g| g.clone()).unwrap_or(None);
        if let Some((op, begin, t0)) = cur {
            if t0.elapsed().as_millis() > HANG_MS {
                let _ = std::fs::write(&hang_path, json!({"op": op, "begin": begin, "after_ms": t0.elapsed().as_millis() as u64}).to_string());
                println!("{}", json!({"hang": op}));
                std::process::exit(HANG_EXIT);
            }
        }
    });
}

struct Rec {
    last_begin: Value,
    w: std::io::BufWriter<std::fs::File>,
    id: usize,
    calls: u64,
    inputs: u64,
    slow: u64,
}

impl Rec {
    fn begin(&mut self, kind: &str, input: &str) {
        self.begin_with(kind, input, json!({}));
    }
    /// `meta` carries what `--one` needs besides the input to run the same session again
    fn begin_with(&mut self, kind: &str, input: &str, meta: Value) {
        self.id += 1;
        self.inputs += 1;
        let shown: String = input.chars().take(6000).collect();
        self.last_begin = json!({"e": "begin", "id": self.id, "kind": kind, "input": shown, "meta": meta});
        let _ = writeln!(self.w, "{}", self.last_begin);
    }
    /// run one call; classify as ok / err / panic / timeout
    fn call<R>(&mut self, op: &str, f: impl FnOnce() -> Result<R, String>) -> Option<R> {
        let t0 = Instant::now();
        if let Ok(mut g) = CURRENT.lock() { *g = Some((op.to_string(), self.last_begin.clone(), t0)); }
        let r = guarded(f);
        if let Ok(mut g) = CURRENT.lock() { *g = None; }
        let ms = t0.elapsed().as_millis();
        self.calls += 1;
        let (res, whr, val) = match r {
            Err(p) => ("panic".to_string(), p.split(": ").next().unwrap_or("").replace(&format!("{}/", crate::util::repo_root()), ""), None),
            Ok(_) if ms > BUDGET_MS => { self.slow += 1; ("timeout".to_string(), format!("{}ms", ms), None) }
            Ok(Ok(v)) => ("ok".to_string(), String::new(), Some(v)),
            Ok(Err(_)) => ("err".to_string(), String::new(), None),
        };
        let _ = writeln!(self.w, "{}", json!({"e": "call", "op": op, "res": res, "where": whr}));
        val
    }
    fn end(&mut self) {
        let _ = writeln!(self.w, "{}", json!({"e": "end"}));
    }
}

fn render_all(rec: &mut Rec, e: &ParseError, original: &str) {
    rec.call("display", || Ok::<_, String>(e.to_string()));
    rec.call("debug_report", || Ok::<_, String>(e.debug_report()));
    rec.call("brief_message", || Ok::<_, String>(e.brief_message()));
    rec.call("format_with_context", || Ok::<_, String>(e.format_with_context(original)));
}

fn message_session<T: SwiftMessageBody + serde::de::DeserializeOwned>(rec: &mut Rec, text: &str) {
    rec.begin_with("message", text, json!({"mt": T::message_type()}));
    let mut last_err: Option<ParseError> = None;
    let parsed: Option<SwiftMessage<T>> = {
        let mut captured: Option<ParseError> = None;
        let r = rec.call("parse_typed", || match SwiftParser::parse::<T>(text) { Ok(m) => Ok(m), Err(e) => { captured = Some(e); Err(String::new()) } });
        last_err = captured.or(last_err);
        r
    };
    if let Some(m) = &parsed {
        rec.call("serialise", || Ok::<_, String>(m.to_mt_message()));
        rec.call("validate_full", || Ok::<_, String>(m.fields.validate_network_rules(false).len()));
        rec.call("validate_stop", || Ok::<_, String>(m.fields.validate_network_rules(true).len()));
        rec.call("validate_message", || Ok::<_, String>(m.validate().errors.len()));
        let j = rec.call("to_json", || serde_json::to_value(m).map_err(|e| e.to_string()));
        if let Some(j) = j {
            rec.call("from_json", || serde_json::from_value::<SwiftMessage<T>>(j.clone()).map(|_| ()).map_err(|e| e.to_string()));
            rec.call("publish", || { let r = run_plugin("publish_mt", json!({"json": j}), json!({"source": "json", "target": "out"})); if r.ok { Ok(()) } else { Err(r.err) } });
        }
    } else if let Some(e) = &last_err {
        render_all(rec, e, text);
    }
    {
        let mut captured: Option<ParseError> = None;
        let ok = rec.call("parse_auto", || match SwiftParser::parse_auto(text) { Ok(m) => Ok(m), Err(e) => { captured = Some(e); Err(String::new()) } });
        if ok.is_none() { if let Some(e) = &captured { render_all(rec, e, text); } }
        if let Some(p) = &ok {
            rec.call("wrapper_validate", || Ok::<_, String>(p.validate().errors.len()));
            let j = rec.call("wrapper_to_json", || serde_json::to_value(p).map_err(|e| e.to_string()));
            if let Some(j) = j {
                rec.call("from_json", || serde_json::from_value::<swift_mt_message::ParsedSwiftMessage>(j.clone()).map(|_| ()).map_err(|e| e.to_string()));
            }
            rec.call("wrapper_accessors", || Ok::<_, String>((p.message_type().len(), p.as_mt103().is_some(), p.as_mt202().is_some(), p.as_mt940().is_some(), p.as_mt199().is_some())));
        }
    }
    rec.call("parse_with_errors", || SwiftParser::new().parse_with_errors::<T>(text).map(|_| ()).map_err(|e| e.to_string()));
    rec.call("plugin_parse", || { let r = run_plugin("parse_mt", json!({"mt": text}), json!({"source": "mt", "target": "out"})); if r.ok { Ok(()) } else { Err(r.err) } });
    rec.call("plugin_validate", || { let r = run_plugin("validate_mt", json!({"mt": text}), json!({"source": "mt", "target": "out"})); if r.ok { Ok(()) } else { Err(r.err) } });
    for b in 1..=5u8 {
        rec.call("extract_block", || SwiftParser::extract_block(text, b).map(|_| ()).map_err(|e| e.to_string()));
    }
    rec.end();
}

fn string_leaves(v: &Value, path: &mut Vec<String>, out: &mut Vec<(Vec<String>, bool)>) {
    match v {
        Value::String(_) => out.push((path.clone(), true)),
        Value::Number(_) => out.push((path.clone(), false)),
        Value::Array(a) => for (i, x) in a.iter().enumerate() { path.push(i.to_string()); string_leaves(x, path, out); path.pop(); },
        Value::Object(o) => for (k, x) in o.iter() { path.push(k.clone()); string_leaves(x, path, out); path.pop(); },
        _ => {}
    }
}

fn set_at(v: &mut Value, path: &[String], new: Value) {
    let mut cur = v;
    for p in path {
        cur = match cur {
            Value::Array(a) => &mut a[p.parse::<usize>().unwrap_or(0)],
            Value::Object(o) => o.get_mut(p).expect("path"),
            _ => return,
        };
    }
    *cur = new;
}

fn get_at<'a>(v: &'a Value, path: &[String]) -> &'a Value {
    let mut cur = v;
    for p in path {
        cur = match cur { Value::Array(a) => &a[p.parse::<usize>().unwrap_or(0)], Value::Object(o) => &o[p.as_str()], _ => return cur };
    }
    cur
}

fn json_sessions<T: SwiftMessageBody + serde::de::DeserializeOwned>(rec: &mut Rec, text: &str, thorough: bool) {
    let m = match guarded(|| SwiftParser::parse::<T>(text)) { Ok(Ok(m)) => m, _ => return };
    let j = match serde_json::to_value(&m) { Ok(j) => j, Err(_) => return };
    let mut leaves = Vec::new();
    string_leaves(&j, &mut Vec::new(), &mut leaves);
    // structural mutations: every array emptied / cut to one element / first element doubled, every
    // object key removed -- values the typed API can also build directly
    let mut containers: Vec<(Vec<String>, bool)> = Vec::new();
    fn walk_containers(v: &Value, path: &mut Vec<String>, out: &mut Vec<(Vec<String>, bool)>) {
        match v {
            Value::Array(a) => { out.push((path.clone(), true)); for (i, x) in a.iter().enumerate() { path.push(i.to_string()); walk_containers(x, path, out); path.pop(); } }
            Value::Object(o) => { out.push((path.clone(), false)); for (k, x) in o.iter() { path.push(k.clone()); walk_containers(x, path, out); path.pop(); } }
            _ => {}
        }
    }
    walk_containers(&j, &mut Vec::new(), &mut containers);
    let mut structural: Vec<(String, Value)> = Vec::new();
    for (path, is_array) in containers {
        let cur = get_at(&j, &path).clone();
        if is_array {
            let a = cur.as_array().cloned().unwrap_or_default();
            let mut variants: Vec<Value> = vec![json!([])];
            if a.len() > 1 { variants.push(Value::Array(a[..1].to_vec())); variants.push(Value::Array(a[1..].to_vec())); }
            if let Some(f) = a.first() { let mut b = a.clone(); b.insert(0, f.clone()); variants.push(Value::Array(b)); }
            for v in variants { let mut j2 = j.clone(); if path.is_empty() { continue; } set_at(&mut j2, &path, v); structural.push((format!("{} restructured", path.join(".")), j2)); }
        } else if let Some(o) = cur.as_object() {
            for k in o.keys() {
                let mut o2 = o.clone();
                o2.remove(k);
                let mut j2 = j.clone();
                if path.is_empty() { j2 = Value::Object(o2); } else { set_at(&mut j2, &path, Value::Object(o2)); }
                structural.push((format!("{}.{} removed", path.join("."), k), j2));
            }
        }
    }
    for (what, j2) in structural {
        rec.begin_with("json", text, json!({"mt": T::message_type(), "path": what, "value": ""}));
        let m2 = rec.call("from_json", || serde_json::from_value::<SwiftMessage<T>>(j2.clone()).map_err(|e| e.to_string()));
        if let Some(m2) = &m2 {
            let txt = rec.call("serialise", || Ok::<_, String>(m2.to_mt_message()));
            rec.call("validate_full", || Ok::<_, String>(m2.fields.validate_network_rules(false).len()));
            rec.call("validate_stop", || Ok::<_, String>(m2.fields.validate_network_rules(true).len()));
            rec.call("validate_message", || Ok::<_, String>(m2.validate().errors.len()));
            rec.call("to_json", || serde_json::to_value(m2).map(|_| ()).map_err(|e| e.to_string()));
            if let Some(txt) = txt {
                rec.call("parse_typed", || SwiftParser::parse::<T>(&txt).map(|_| ()).map_err(|e| e.to_string()));
            }
        }
        rec.call("publish", || { let r = run_plugin("publish_mt", json!({"json": j2}), json!({"source": "json", "target": "out"})); if r.ok { Ok(()) } else { Err(r.err) } });
        rec.end();
    }
    for (path, is_str) in leaves {
        let mut variants: Vec<Value> = Vec::new();
        if is_str {
            let s0 = get_at(&j, &path).as_str().unwrap_or("").to_string();
            let n = s0.chars().count();
            variants.push(json!(""));
            variants.push(json!(insert_at(&s0, 0, "\u{e9}")));
            variants.push(json!(insert_at(&s0, n / 2, "\u{ff11}")));
            variants.push(json!(insert_at(&s0, n, "\u{661}")));
            variants.push(json!(s0.chars().map(|c| if c.is_ascii_digit() { '\u{661}' } else { c }).collect::<String>()));
            if n >= 2 { variants.push(json!(std::iter::once('\u{e9}').chain(s0.chars().skip(2)).collect::<String>())); }
            if n >= 3 { variants.push(json!(s0.chars().take(n - 3).chain(std::iter::once('\u{ff11}')).collect::<String>())); }
            variants.push(json!("A".repeat(5000)));
            variants.push(json!("\n\n"));
            variants.push(json!(s0.chars().take(n / 2).collect::<String>()));
            variants.push(json!(12));
            if thorough || n <= 40 {
                for pos in 0..n {
                    for d in ['\u{e9}', '\u{ff11}'] {
                        variants.push(json!(s0.chars().enumerate().map(|(i, c)| if i == pos { d } else { c }).collect::<String>()));
                        variants.push(json!(insert_at(&s0, pos, &d.to_string())));
                    }
                }
            }
        } else {
            for x in [json!(0), json!(-1), json!(1e300), json!(-1e300), json!(0.1234567891234), json!(u64::MAX), json!("x"), json!(1e-300), Value::Null] { variants.push(x); }
        }
        for nv in variants {
            let mut j2 = j.clone();
            set_at(&mut j2, &path, nv.clone());
            rec.begin_with("json", text, json!({"mt": T::message_type(), "path": path.join("."), "value": nv.to_string()}));
            let m2 = rec.call("from_json", || serde_json::from_value::<SwiftMessage<T>>(j2.clone()).map_err(|e| e.to_string()));
            if let Some(m2) = &m2 {
                let txt = rec.call("serialise", || Ok::<_, String>(m2.to_mt_message()));
                rec.call("validate_full", || Ok::<_, String>(m2.fields.validate_network_rules(false).len()));
                rec.call("validate_stop", || Ok::<_, String>(m2.fields.validate_network_rules(true).len()));
                rec.call("validate_message", || Ok::<_, String>(m2.validate().errors.len()));
                rec.call("to_json", || serde_json::to_value(m2).map(|_| ()).map_err(|e| e.to_string()));
                if let Some(txt) = txt {
                    rec.call("parse_typed", || SwiftParser::parse::<T>(&txt).map(|_| ()).map_err(|e| e.to_string()));
                    rec.call("parse_auto", || SwiftParser::parse_auto(&txt).map(|_| ()).map_err(|e| e.to_string()));
                }
            }
            rec.call("publish", || { let r = run_plugin("publish_mt", json!({"json": j2}), json!({"source": "json", "target": "out"})); if r.ok { Ok(()) } else { Err(r.err) } });
            rec.end();
        }
    }
}

fn field_session(rec: &mut Rec, tag: &str, content: &str) {
    rec.begin_with("field", content, json!({"tag": tag}));
    let o = rec.call("field_parse", || match parse_by_tag(tag, content) { Some(Ok(o)) => Ok(o), Some(Err(e)) => Err(e), None => Err("unknown".into()) });
    if let Some(o) = o {
        rec.call("field_serialise", || Ok::<_, String>(o.ser.len()));
    }
    rec.end();
}

fn insert_at(s: &str, char_pos: usize, what: &str) -> String {
    let mut out = String::new();
    let mut done = false;
    for (i, c) in s.chars().enumerate() {
        if i == char_pos { out.push_str(what); done = true; }
        out.push(c);
    }
    if !done { out.push_str(what); }
    out
}

fn header_session(rec: &mut Rec, kind: &str, inp: &str) {
    rec.begin_with("header", inp, json!({"block": kind}));
    let disp = match kind {
        "b1" => rec.call("header_parse", || BasicHeader::parse(inp).map(|h| h.to_string()).map_err(|e| e.to_string())),
        "b2" => rec.call("header_parse", || ApplicationHeader::parse(inp).map(|h| h.to_string()).map_err(|e| e.to_string())),
        "b3" => rec.call("header_parse", || UserHeader::parse(inp).map(|h| h.to_string()).map_err(|e| e.to_string())),
        _ => rec.call("header_parse", || Trailer::parse(inp).map(|h| h.to_string()).map_err(|e| e.to_string())),
    };
    if disp.is_some() { rec.call("header_display", || Ok::<_, String>(())); }
    rec.end();
}

/// run again the one session described by a replay file; prints its events
fn run_one(path: &str) -> i32 {
    let v: Value = serde_json::from_str(&std::fs::read_to_string(path).expect("read")).expect("json");
    let rp = &v["replay"];
    let tmp = std::env::temp_dir().join(format!("c07_one_{}.ndjson", std::process::id()));
    start_watchdog(tmp.with_extension("hang").to_string_lossy().to_string());
    let mut rec = Rec { last_begin: Value::Null, w: std::io::BufWriter::new(std::fs::File::create(&tmp).expect("tmp")), id: 0, calls: 0, inputs: 0, slow: 0 };
    let input = rp["input"].as_str().unwrap_or("");
    let meta = &rp["meta"];
    match rp["kind"].as_str().unwrap_or("") {
        "message" => { let mt = meta["mt"].as_str().unwrap_or(""); with_mt!(mt, T => message_session::<T>(&mut rec, input), else ()); }
        "field" => field_session(&mut rec, meta["tag"].as_str().unwrap_or(""), input),
        "header" => header_session(&mut rec, meta["block"].as_str().unwrap_or(""), input),
        "json" => { let mt = meta["mt"].as_str().unwrap_or(""); with_mt!(mt, T => json_sessions::<T>(&mut rec, input, true), else ()); }
        k => { eprintln!("no single-session replay for kind {}", k); return 2; }
    }
    let _ = rec.w.flush();
    let text = std::fs::read_to_string(&tmp).unwrap_or_default();
    let _ = std::fs::remove_file(&tmp);
    let mut bad = 0;
    for l in text.lines() {
        if l.contains("\"e\":\"call\"") && !l.contains("\"res\":\"ok\"") && !l.contains("\"res\":\"err\"") { println!("{}", l); bad += 1; }
    }
    println!("non-total answers: {}", bad);
    if bad > 0 { 1 } else { 0 }
}

pub fn run(args: &[String]) -> i32 {
    if let Some(p) = arg(args, "--one") { return run_one(p); }
    let walks = arg(args, "--walks").expect("--walks");
    let field_cases = arg(args, "--fields").expect("--fields");
    let traces = arg(args, "--traces").expect("--traces");
    let out_path = arg(args, "--out").expect("--out");
    let thorough = flag(args, "--thorough");
    let (contents, _) = Contents::load(&arg(args, "--contents").map(|s| s.to_string()).unwrap_or_else(crate::util::contents_default));
    start_watchdog(format!("{}.hang", out_path));
    let mut rec = Rec { last_begin: Value::Null, w: std::io::BufWriter::new(std::fs::File::create(traces).expect("traces")), id: 0, calls: 0, inputs: 0, slow: 0 };
    let mut rng = Rng::new(seed_from_env());
    let mut samples: Vec<Value> = Vec::new();

    // ---- field level: every content of the shape space, poisoned and truncated ----------------
    let f = std::io::BufReader::new(std::fs::File::open(field_cases).expect("fields"));
    let mut per_tag_typical: std::collections::BTreeMap<String, String> = Default::default();
    for line in f.lines().map_while(|l| l.ok()) {
        let c: Value = match serde_json::from_str(&line) { Ok(v) => v, Err(_) => continue };
        let tag = c["tag"].as_str().unwrap_or("").to_string();
        let content: String = c["s"].as_array().map(|a| a.iter().filter_map(|x| x.as_str()).collect::<Vec<_>>().concat()).unwrap_or_default()
            .replace("<MB>", "\u{e9}").replace("<AD>", "\u{661}");
        field_session(&mut rec, &tag, &content);
        // every shape of the format space that is in the language (other optional parts, alternatives, line
        // counts, boundary lengths) reaches other code than the typical content: poison these too
        let label = c["l"].as_str().unwrap_or("");
        if label != "" && !label.contains('&') && (thorough || c["accept"] == true) {
            let n = content.chars().count();
            for pos in 0..n {
                for (k, p) in [(2usize, "\u{c9}"), (3, "\u{ff11}")].iter().chain(if thorough { [(2usize, "\u{e9}"), (4, "\u{1d400}")].iter() } else { [].iter() }) {
                    if pos + k <= n {
                        let t: String = content.chars().take(pos).chain(p.chars()).chain(content.chars().skip(pos + k)).collect();
                        field_session(&mut rec, &tag, &t);
                    }
                }
            }
        }
        if c["l"].as_str() == Some("") { per_tag_typical.insert(tag, content); }
    }
    let mut all_field_tags: Vec<String> = FIELD_TAGS.iter().map(|s| s.to_string()).collect();
    all_field_tags.sort();
    for tag in &all_field_tags {
        let base = per_tag_typical.get(tag).cloned().or_else(|| contents.valid.get(tag).and_then(|v| v.first().cloned())).unwrap_or_else(|| "X".to_string());
        let n = base.chars().count();
        // poison at every character position (every fixed byte offset a parser may slice at)
        for pos in 0..=n {
            for p in POISON.iter().take(if thorough { POISON.len() } else { 2 }) {
                field_session(&mut rec, tag, &insert_at(&base, pos, p));
            }
            // replacement instead of insertion keeps the byte length checks satisfied
            let replaced: String = base.chars().enumerate().map(|(i, c)| if i == pos { '\u{e9}' } else { c }).collect();
            field_session(&mut rec, tag, &replaced);
        }
        // byte-length-preserving substitutions: k ASCII characters become one k-byte character, so
        // every byte-length check still passes while the fixed offsets fall inside a character
        for pos in 0..n {
            for (k, p) in WIDE {
                if pos + k > n { continue; }
                let t: String = base.chars().take(pos).chain(p.chars()).chain(base.chars().skip(pos + k)).collect();
                field_session(&mut rec, tag, &t);
            }
            // same position, a digit of another script (Unicode-aware digit tests accept it)
            for d in ['\u{661}', '\u{ff11}', '\u{b2}', '\u{bd}', '\u{c9}', '\u{3a9}', '\u{ff21}', '\u{e9}'] {
                let t: String = base.chars().enumerate().map(|(i, c)| if i == pos { d } else { c }).collect();
                field_session(&mut rec, tag, &t);
            }
        }
        // all digits in another script
        for d in ['\u{661}', '\u{ff11}'] {
            let t: String = base.chars().map(|c| if c.is_ascii_digit() { d } else { c }).collect();
            field_session(&mut rec, tag, &t);
        }
        // truncation at every length
        for k in 0..n {
            let t: String = base.chars().take(k).collect();
            field_session(&mut rec, tag, &t);
        }
        field_session(&mut rec, tag, "");
        field_session(&mut rec, tag, &"A".repeat(10_000));
        field_session(&mut rec, tag, &"\n".repeat(200));
    }
    // option enums: with letter / without / unknown letter, on the same poisoned inputs
    for (name, base, letters) in FAMILIES {
        for l in letters.iter() {
            let tag = format!("{}{}", base, l);
            let content = per_tag_typical.get(&tag).cloned().unwrap_or_else(|| "X".into());
            for input in [content.clone(), insert_at(&content, 1, "\u{e9}"), String::new()] {
                rec.begin_with("family", &input, json!({"family": name, "letter": l}));
                rec.call("field_parse", || match parse_family(name, &input, Some(l), false) { Some(Ok(_)) => Ok(()), Some(Err(e)) => Err(e), None => Err("?".into()) });
                rec.call("field_parse", || match parse_family(name, &input, None, true) { Some(Ok(_)) => Ok(()), Some(Err(e)) => Err(e), None => Err("?".into()) });
                rec.end();
            }
        }
    }

    // ---- headers: truncation and poison at every offset ------------------------------------------
    let headers: &[(&str, &str)] = &[
        ("b1", "F01BANKBEBBAXXX1234567890"), ("b2", "I103BANKDEFFXXXXN2015"), ("b2", "O1031158240718BANKBEBBAXXX43210987652407191301N"),
        ("b3", "{103:EBA}{113:NNNN}{108:MUR1234567890123}{119:STP}{423:24071812345698}{106:240717BANKBEBBAXXX1234567890}{424:REL}{111:001}{121:8a562c65-9a7e-4d8b-8f3a-2b1c5d6e7f80}{115:ADDR}{165:ABC/INFO}{433:AOK/NO}{434:FPO/X}"),
        ("b5", "{CHK:123456789ABC}{TNG}{PDE:1348120811BANKFRPPAXXX2222123456}{DLM}{MAC:00000000}"),
    ];
    for (kind, h) in headers {
        let n = h.chars().count();
        let mut inputs: Vec<String> = (0..=n).map(|k| h.chars().take(k).collect()).collect();
        for pos in 0..=n { inputs.push(insert_at(h, pos, "\u{e9}")); inputs.push(h.chars().enumerate().map(|(i, c)| if i == pos { '\u{ff11}' } else { c }).collect()); }
        for inp in inputs {
            header_session(&mut rec, kind, &inp);
        }
    }

    // ---- message level: walks, poisoned in every field, truncated at every token and in the headers ----
    let f = std::io::BufReader::new(std::fs::File::open(walks).expect("walks"));
    let mut seen_types: std::collections::BTreeMap<String, usize> = Default::default();
    let mut json_bases: Vec<(String, String, bool)> = Vec::new();
    for (case_id, line) in f.lines().map_while(|l| l.ok()).enumerate() {
        let v: Value = match serde_json::from_str(&line) { Ok(v) => v, Err(_) => continue };
        let c = parse_case(v);
        // the walks with every optional element present always take part (they reach the most code);
        // of the others a sample
        let is_full_walk = c.raw["mode"] == "full";
        let per_type = if is_full_walk { if thorough { 12 } else { 3 } } else if thorough { 40 } else { 5 };
        let cnt = seen_types.entry(format!("{}{}", c.mt, is_full_walk)).or_insert(0);
        if *cnt >= per_type || (!is_full_walk && *cnt > 0 && rng.below(3) != 0) { continue; }
        *cnt += 1;
        let fields = match concretise_salted(&contents, &c.toks, case_id % 3, case_id) { Some(f) => f, None => continue };
        let base = full_message(&c.mt, &block4_text(&fields));
        let mut inputs: Vec<String> = vec![base.clone(), String::new(), "{".into(), "{4:".into(), "{1:}{2:}{4:-}".into()];
        // poison inside every field content (start / middle / end)
        for i in 0..fields.len() {
            for (pi, p) in POISON.iter().enumerate().take(if thorough { 4 } else { 2 }) {
                let mut f2 = fields.clone();
                let n = f2[i].1.chars().count();
                let pos = match (pi + i) % 3 { 0 => 0, 1 => n / 2, _ => n };
                f2[i].1 = insert_at(&f2[i].1, pos, p);
                inputs.push(full_message(&c.mt, &block4_text(&f2)));
                if n >= 4 {
                    let mut f4 = fields.clone();
                    let q = pos.min(n - 4);
                    let (k, sub) = [(2usize, "\u{e9}"), (3, "\u{ff11}"), (4, "\u{1f600}"), (2, "\u{661}")][pi % 4];
                    f4[i].1 = f4[i].1.chars().take(q).chain(sub.chars()).chain(fields[i].1.chars().skip(q + k)).collect();
                    inputs.push(full_message(&c.mt, &block4_text(&f4)));
                }
                let mut f3 = fields.clone();
                f3[i].1 = f3[i].1.chars().enumerate().map(|(k, ch)| if k == pos.min(n.saturating_sub(1)) { '\u{e9}' } else { ch }).collect();
                inputs.push(full_message(&c.mt, &block4_text(&f3)));
            }
        }
        // truncation: at every token boundary, and at every byte of the headers
        let b4_start = base.find("{4:").unwrap_or(0);
        for k in 0..b4_start.min(60) { inputs.push(base.chars().take(k).collect()); }
        let mut acc = 0usize;
        for (i, ch) in base.char_indices() { if ch == '\n' && i > b4_start { acc += 1; if acc % 1 == 0 { inputs.push(base[..i].to_string()); } } }
        // poison in the tag itself and in the headers
        inputs.push(base.replacen(":20:", ":2\u{e9}:", 1));
        inputs.push(base.replacen("F01", "F\u{e9}1", 1));
        inputs.push(base.replacen("{2:I", "{2:\u{e9}", 1));
        for input in inputs {
            with_mt!(c.mt.as_str(), T => message_session::<T>(&mut rec, &input), else ());
        }
        let is_full = c.raw["mode"] == "full";
        if json_bases.iter().filter(|b| b.0 == c.mt && b.2 == is_full).count() < (if is_full { 3 } else { 1 }) {
            json_bases.push((c.mt.clone(), base.clone(), is_full));
        }
        if samples.len() < 3 { samples.push(json!({"mt": c.mt, "base": base})); }
    }

    // ---- rule-shaped messages: every fact vector of Rules.tla (value combinations no layout walk has: one charges
    //      field without the other, unequal sums, code words in every place) through the whole session -----------
    if let Some(path) = arg(args, "--rule-texts") {
        if let Ok(fh) = std::fs::File::open(path) {
            for line in std::io::BufReader::new(fh).lines().map_while(|l| l.ok()) {
                let v: Value = match serde_json::from_str(&line) { Ok(v) => v, Err(_) => continue };
                let (mt, text) = (v["mt"].as_str().unwrap_or("").to_string(), v["text"].as_str().unwrap_or("").to_string());
                with_mt!(mt.as_str(), T => message_session::<T>(&mut rec, &text), else ());
            }
        }
    }

    // ---- envelopes: block markers and terminators in hostile places, every truncation ----------------
    {
        let env_bases: Vec<(&str, String)> = vec![
            ("103", "{1:F01BANKBEBBAXXX0000000000}{2:I103BANKDEFFXXXXN}{3:{108:MUR-2024-}{121:8a562c65-9a7e-4d8b-8f3a-2b1c5d6e7f80}}{4:\r\n:20:REF123\r\n:23B:CRED\r\n:32A:240719USD1234,56\r\n:50K:/12345678\r\nJOHN DOE\r\n:59:/98765432\r\nJANE SMITH\r\n:70:PAY-}MENT {4: AND {5:\r\n:71A:OUR\r\n-}{5:{CHK:123456789ABC}{TNG}{PDE:1348120811BANKFRPPAXXX2222123456}{MAC:00000000}}".to_string()),
            ("940", "{1:F01BANKBEBBAXXX0000000000}{2:O9401158240718BANKBEBBAXXX43210987652407191301N}{3:{108:A-}}{4:\r\n:20:REF\r\n:25:/1234567890\r\n:28C:1/1\r\n:60F:C231225USD1234,56\r\n:62F:C231225USD1234,56\r\n-}{5:{CHK:123456789ABC}}".to_string()),
        ];
        for (mt, base) in &env_bases {
            let n = base.chars().count();
            let mut inputs: Vec<String> = (0..=n).map(|k| base.chars().take(k).collect()).collect();
            // the same cut with the tail kept (a block lost from the front)
            for k in (0..n).step_by(if thorough { 1 } else { 7 }) { inputs.push(base.chars().skip(k).collect()); }
            for input in inputs {
                with_mt!(*mt, T => message_session::<T>(&mut rec, &input), else ());
            }
        }
        for t in ["-}{4:", "{3:{108:A-}}{4:", "x-}{1:F01}{4:\n:20:REF\n-", "{4:-}", "{4:\r\n-}{4:", "}}}}", "{5:{4:-}", "{4:{4:{4:", "-}-}-}", "{1:{2:{3:{4:{5:",
                  "{1:F01BANKBEBBAXXX0000000000}{2:I103BANKDEFFXXXXN}{3:{108:-}}{4:", "{2:I103BANKDEFFXXXXN}-}{1:F01BANKBEBBAXXX0000000000}{4:\r\n:20:A"] {
            with_mt!("103", T => message_session::<T>(&mut rec, t), else ());
        }
    }

    // ---- JSON given from outside: every string leaf of a valid message's JSON made hostile ----------
    for (mt, base, _) in json_bases.iter() {
        with_mt!(mt.as_str(), T => json_sessions::<T>(&mut rec, base, thorough), else ());
    }

    // ---- legacy field-map API and tag utilities -------------------------------------------------
    for (_, base, _) in json_bases.iter() {
        let b4 = base.find("{4:").map(|s| &base[s + 3..]).unwrap_or("");
        let mut texts: Vec<String> = vec![b4.to_string(), base.clone()];
        let n = b4.chars().count();
        for pos in (0..n).step_by(if thorough { 1 } else { 3 }) {
            texts.push(insert_at(b4, pos, "\u{e9}"));
            texts.push(b4.chars().take(pos).collect());
        }
        for t in texts {
            rec.begin("legacy", &t);
            rec.call("tokenise", || parse_block4_fields(&t).map(|_| ()).map_err(|e| e.to_string()));
            for tag in ["20", "32A", "50", "50K", "79", "\u{e9}", "", ":", "2\u{e9}"] {
                rec.call("legacy_extract", || extract_field_content(&t, tag).map(|_| ()).ok_or_else(String::new));
            }
            rec.call("extract_block4", || extract_block4(&t).map(|_| ()).map_err(|e| e.to_string()));
            rec.end();
        }
    }
    for t in ["", ":", "20", ":20:", "50K", ":50K:", "\u{e9}", "2\u{e9}", ":\u{e9}\u{e9}\u{e9}:", "50#1", "\u{ff11}\u{ff11}A", "A", "#", "20#\u{e9}"] {
        rec.begin("tagutil", t);
        rec.call("tag_util", || Ok::<_, String>(normalize_field_tag(t).len()));
        rec.call("tag_util", || Ok::<_, String>(extract_base_tag(t).len()));
        rec.end();
    }

    // ---- public helper functions of fields::swift_utils / field_utils on hostile strings -------------
    {
        use swift_mt_message::fields::field_utils as fu;
        use swift_mt_message::fields::swift_utils as su;
        let bases: &[&str] = &["DEUTDEFFXXX", "DEUTDEFF", "240719", "20240719", "1230", "2407191230", "USD", "1234,56", "GB82WEST12345698765432",
            "/C/12345678", "//FW021000021", "1/ACME CORP", "REF123456", "ABC/DEF", "LINE ONE\nLINE TWO", ":50K:", "50K", "NAME\nSTREET\nCITY", "A", ""];
        let mut inputs: Vec<String> = Vec::new();
        for b in bases {
            inputs.push(b.to_string());
            let n = b.chars().count();
            for pos in 0..n {
                for (k, p) in WIDE {
                    if pos + k <= n { inputs.push(b.chars().take(pos).chain(p.chars()).chain(b.chars().skip(pos + k)).collect()); }
                    inputs.push(insert_at(b, pos, p));
                }
                inputs.push(b.chars().take(pos).collect());
            }
        }
        for t in inputs {
            rec.begin("util", &t);
            let r = |x: bool| if x { Ok(()) } else { Err(String::new()) };
            rec.call("util_parse", || r(su::parse_exact_length(&t, 3, "x").is_ok()));
            rec.call("util_parse", || r(su::parse_max_length(&t, 16, "x").is_ok()));
            rec.call("util_parse", || r(su::parse_length_range(&t, 1, 16, "x").is_ok()));
            rec.call("util_parse", || r(su::parse_alphanumeric(&t, "x").is_ok()));
            rec.call("util_parse", || r(su::parse_uppercase(&t, "x").is_ok()));
            rec.call("util_parse", || r(su::parse_numeric(&t, "x").is_ok()));
            rec.call("util_parse", || r(su::parse_swift_digits(&t, "x").is_ok()));
            rec.call("util_parse", || r(su::parse_swift_chars(&t, "x").is_ok()));
            rec.call("util_parse", || r(su::parse_bic(&t).is_ok()));
            rec.call("util_parse", || r(su::parse_account(&t).is_ok()));
            rec.call("util_parse", || r(su::parse_currency(&t).is_ok()));
            rec.call("util_parse", || r(su::parse_currency_non_commodity(&t).is_ok()));
            rec.call("util_parse", || r(su::validate_non_commodity_currency(&t).is_ok()));
            rec.call("util_parse", || r(su::parse_amount(&t).is_ok()));
            rec.call("util_parse", || r(su::parse_amount_with_currency(&t, "USD").is_ok()));
            rec.call("util_parse", || r(su::parse_amount_with_currency("1,5", &t).is_ok()));
            rec.call("util_parse", || r(su::validate_amount_decimals(1.5, &t).is_ok()));
            rec.call("util_parse", || r(su::parse_date_yymmdd(&t).is_ok()));
            rec.call("util_parse", || r(su::parse_date_yyyymmdd(&t).is_ok()));
            rec.call("util_parse", || r(su::parse_time_hhmm(&t).is_ok()));
            rec.call("util_parse", || r(su::parse_datetime_yymmddhhmm(&t).is_ok()));
            rec.call("util_parse", || r(su::parse_reference(&t).is_ok()));
            rec.call("util_parse", || r(su::validate_iban(&t).is_ok()));
            rec.call("util_parse", || r(fu::parse_party_identifier(&t).is_ok()));
            rec.call("util_parse", || r(fu::parse_multiline_text(&t, 4, 35).is_ok()));
            rec.call("util_parse", || { let l: Vec<&str> = t.split('\n').collect(); r(fu::parse_name_and_address(&l, 0, "x").is_ok()) });
            rec.call("util_parse", || { let l: Vec<&str> = t.split('\n').collect(); r(fu::validate_multiline_text(&l, 4, 35, "x").is_ok()) });
            rec.call("util_parse", || { let l: Vec<&str> = t.split('\n').collect(); r(fu::parse_numbered_lines(&l).is_ok()) });
            rec.call("util_parse", || r(fu::content_lines(&t, "x").is_ok()));
            rec.call("tag_util", || Ok::<_, String>(su::get_currency_decimals(&t)));
            rec.call("tag_util", || Ok::<_, String>(su::format_swift_amount_for_currency(1.5, &t)));
            rec.call("tag_util", || Ok::<_, String>(su::split_at_first(&t, '/')));
            rec.call("tag_util", || Ok::<_, String>(su::split_at_newline(&t)));
            rec.call("tag_util", || Ok::<_, String>(su::normalize_text(&t)));
            rec.call("tag_util", || Ok::<_, String>(fu::parse_payment_method(&t).is_some()));
            rec.call("tag_util", || Ok::<_, String>(fu::parse_field_tag(&t)));
            rec.call("tag_util", || Ok::<_, String>(fu::is_numbered_line(&t)));
            rec.call("tag_util", || Ok::<_, String>(fu::extract_field_number(&t)));
            rec.call("tag_util", || Ok::<_, String>(fu::extract_field_option(&t)));
            rec.call("tag_util", || Ok::<_, String>(fu::parse_field_with_suffix(&t)));
            rec.end();
        }
    }

    // ---- legacy consumption tracker with hostile values (long, multi-byte) --------------------------
    {
        use std::collections::HashMap;
        use swift_mt_message::parser::{FieldConsumptionTracker, find_field_with_variant_sequential_constrained};
        let long: String = "A".repeat(49);
        for tagv in ["86", "90D", "50K", "20"] {
            for (k, p) in WIDE {
                for off in 0..k {
                    let value = format!("{}{}{}", &long[..49 - off], p, "B".repeat(20));
                    rec.begin("tracker", &format!("{}={}", tagv, value));
                    let mut fields: HashMap<String, Vec<(String, usize)>> = HashMap::new();
                    fields.insert(tagv.to_string(), vec![(value.clone(), 0), (value.clone(), 1)]);
                    let mut tr = FieldConsumptionTracker::new();
                    let base: String = tagv.chars().filter(|c| c.is_ascii_digit()).collect();
                    rec.call("legacy_extract", || find_field_with_variant_sequential_constrained(&fields, &base, &mut tr, None).map(|_| ()).ok_or_else(String::new));
                    rec.call("legacy_extract", || find_field_with_variant_sequential_constrained(&fields, tagv, &mut tr, None).map(|_| ()).ok_or_else(String::new));
                    rec.call("legacy_extract", || tr.get_next_available(tagv, fields.get(tagv).map(|v| v.as_slice()).unwrap_or(&[])).map(|_| ()).ok_or_else(String::new));
                    rec.end();
                }
            }
        }
    }

    // ---- tokeniser with hostile texts ---------------------------------------------------------------
    for t in ["", ":", "::", ":20", ":20:", "\n:\n:", ":\u{e9}\u{e9}:X", "\u{e9}:20:X", ":20:X\n:\u{ff11}1:Y", "\n-", "-}"] {
        rec.begin("tokenise", t);
        rec.call("tokenise", || parse_block4_fields(t).map(|_| ()).map_err(|e| e.to_string()));
        rec.end();
    }
    let _ = rec.w.flush();

    // ---- scaling: time vs size; one `scale` call event per (input family, entry point) -------------
    let mut scaling: Vec<Value> = Vec::new();
    let mut worst_exponent = 0.0f64;
    let sizes: Vec<usize> = if thorough { vec![16, 32, 64, 128, 256, 512, 1024] } else { vec![16, 32, 64, 128, 256] };
    let rep = |unit: &str, kb: usize| -> String { std::iter::repeat(unit).take(kb * 1024 / unit.len().max(1)).collect() };
    let env = |mt: &str, body: &str| format!("{{1:F01BANKBEBBAXXX0000000000}}{{2:I{}BANKDEFFXXXXN}}{{4:\r\n{}-}}", mt, body);
    let gens: Vec<(&str, Box<dyn Fn(usize) -> String>)> = vec![
        ("long-narrative", Box::new(move |kb| env("199", &format!(":20:REF\r\n:79:{}", rep("NARRATIVE LINE WITH FIFTY CHARACTERS OF PLAIN TEXT\r\n", kb))))),
        ("many-statement-lines", Box::new(move |kb| env("940", &format!(":20:REF\r\n:25:/1234567890\r\n:28C:12345/99999\r\n:60F:C231225USD1234,56\r\n{}:62F:C231225USD1234,56\r\n", rep(":61:231225D1234,56NTRFREF123456\r\n:86:INFORMATION TO ACCOUNT OWNER\r\n", kb))))),
        ("many-transactions", Box::new(move |kb| env("101", &format!(":20:REF\r\n:28D:1/1\r\n:50H:/12345678\r\nNAME\r\n:30:240719\r\n{}", rep(":21:TXREF\r\n:32B:USD1234,56\r\n:59:/12345678\r\nNAME\r\n:71A:OUR\r\n", kb))))),
        ("many-duplicates", Box::new(move |kb| env("103", &format!(":20:REF\r\n{}", rep(":13C:/CLSTIME/0915+0100\r\n", kb))))),
        ("one-long-line", Box::new(move |kb| env("199", &format!(":20:REF\r\n:79:{}\r\n", rep("A", kb))))),
        ("open-braces", Box::new(move |kb| rep("{", kb))),
        ("many-blocks", Box::new(move |kb| rep("{1:F01BANKBEBBAXXX0000000000}", kb))),
        ("colons", Box::new(move |kb| env("199", &rep(":", kb)))),
        ("empty-lines", Box::new(move |kb| env("199", &rep("\r\n", kb)))),
        ("many-header-tags", Box::new(move |kb| format!("{{1:F01BANKBEBBAXXX0000000000}}{{2:I199BANKDEFFXXXXN}}{{3:{}}}{{4:\r\n:20:A\r\n:79:B\r\n-}}{{5:{}}}", rep("{108:ABC}", kb / 2), rep("{CHK:123456789ABC}", kb / 2)))),
        ("non-ascii", Box::new(move |kb| env("199", &format!(":20:REF\r\n:79:{}", rep("\u{e9}\u{ff11}\r\n", kb))))),
    ];
    let entries: &[&str] = &["parse_auto", "plugin_validate", "plugin_parse", "tokenise", "extract_block", "header_parse", "legacy_extract", "error_render"];
    rec.begin("scaling", "");
    for (gname, g) in gens.iter() {
        for ename in entries {
            let mut pts: Vec<(f64, f64)> = Vec::new();
            let mut panicked: Option<String> = None;
            let mut last_secs = 0.0f64;
            for kb in &sizes {
                if last_secs > 4.0 { break; }
                let input = g(*kb);
                let mut best = f64::MAX;
                for r in 0..3 {
                    if r > 0 && best > 1.0 { break; }
                    let t0 = Instant::now();
                    let res = guarded(|| match *ename {
                        "parse_auto" => { let _ = SwiftParser::parse_auto(&input); }
                        "plugin_validate" => { let _ = run_plugin("validate_mt", json!({"mt": input}), json!({"source": "mt", "target": "out"})); }
                        "plugin_parse" => { let _ = run_plugin("parse_mt", json!({"mt": input}), json!({"source": "mt", "target": "out"})); }
                        "tokenise" => { let b4 = input.find("{4:").map(|s| &input[s + 3..]).unwrap_or(&input); let _ = parse_block4_fields(b4); }
                        "extract_block" => { for b in 1..=5u8 { let _ = SwiftParser::extract_block(&input, b); } }
                        "header_parse" => { let _ = UserHeader::parse(&input); let _ = Trailer::parse(&input); let _ = BasicHeader::parse(&input); let _ = ApplicationHeader::parse(&input); }
                        "legacy_extract" => { let _ = extract_field_content(&input, "62F"); let _ = extract_block4(&input); }
                        _ => { if let Err(e) = SwiftParser::parse_auto(&input) { let _ = e.to_string(); let _ = e.debug_report(); let _ = e.brief_message(); let _ = e.format_with_context(&input); } }
                    });
                    if let Err(p) = res { panicked = Some(p.split(": ").next().unwrap_or("").replace(&format!("{}/", crate::util::repo_root()), "")); }
                    best = best.min(t0.elapsed().as_secs_f64());
                }
                last_secs = best;
                pts.push(((*kb as f64).ln(), best.max(1e-6).ln()));
            }
            // least-squares slope of log(time) over log(size), over the points above one millisecond
            let pts2: Vec<(f64, f64)> = pts.iter().cloned().filter(|p| p.1 > (0.001f64).ln()).collect();
            let slope = if pts2.len() >= 3 {
                let n = pts2.len() as f64;
                let (sx, sy): (f64, f64) = (pts2.iter().map(|p| p.0).sum(), pts2.iter().map(|p| p.1).sum());
                let (sxx, sxy): (f64, f64) = (pts2.iter().map(|p| p.0 * p.0).sum(), pts2.iter().map(|p| p.0 * p.1).sum());
                (n * sxy - sx * sy) / (n * sxx - sx * sx)
            } else { 0.0 };
            worst_exponent = worst_exponent.max(slope);
            let reached_kb = sizes[pts.len().saturating_sub(1).min(sizes.len() - 1)];
            // a family that cannot finish the size ladder within seconds per call is as bad as a steep slope
            let (res, whr) = if let Some(p) = panicked { ("panic".to_string(), p) }
                else if slope > 2.6 { ("superpolynomial".to_string(), format!("{}/{}", gname, ename)) }
                else if last_secs > 20.0 { ("timeout".to_string(), format!("{}/{}", gname, ename)) }
                else { ("ok".to_string(), String::new()) };
            rec.calls += 1;
            let _ = writeln!(rec.w, "{}", json!({"e": "call", "op": "scale", "res": res, "where": whr}));
            scaling.push(json!({"input": gname, "entry": ename, "exponent": (slope * 100.0).round() / 100.0, "largest_kb": reached_kb,
                                "seconds_at_largest": (last_secs * 1000.0).round() / 1000.0}));
        }
    }
    rec.end();
    let _ = rec.w.flush();
    std::fs::write(out_path, json!({"inputs": rec.inputs, "calls": rec.calls, "slow_calls": rec.slow, "scaling": scaling,
        "worst_exponent": (worst_exponent * 100.0).round() / 100.0, "samples": samples}).to_string()).expect("write");
    0
}
