//! Direct invocation of the dataflow plugin functions (parse_mt, publish_mt, validate_mt,
//! generate_mt). Their futures never suspend, so a current-thread tokio runtime suffices.

use dataflow_rs::engine::{AsyncFunctionHandler, FunctionConfig, message::Message};
use datalogic_rs::DataLogic;
use serde_json::{Value, json};
use std::sync::Arc;
use swift_mt_message::plugin::{Generate, Parse, Publish, Validate};

thread_local! {
    static RT: tokio::runtime::Runtime = tokio::runtime::Builder::new_current_thread().build().expect("rt");
}

pub struct PluginResult {
    pub ok: bool,
    pub err: String,
    pub data: Value,
    pub metadata: Value,
}

/// Run one plugin function on a fresh message whose `data` is `data`.
pub fn run_plugin(name: &str, data: Value, input: Value) -> PluginResult {
    let mut msg = Message::from_value(&json!({}));
    *msg.data_mut() = data;
    run_plugin_on(name, &mut msg, input)
}

pub fn run_plugin_on(name: &str, msg: &mut Message, input: Value) -> PluginResult {
    let cfg = FunctionConfig::Custom { name: name.to_string(), input };
    let dl = Arc::new(DataLogic::new());
    let r = RT.with(|rt| {
        rt.block_on(async {
            match name {
                "parse_mt" => Parse.execute(msg, &cfg, dl).await,
                "publish_mt" => Publish.execute(msg, &cfg, dl).await,
                "validate_mt" => Validate.execute(msg, &cfg, dl).await,
                "generate_mt" => Generate.execute(msg, &cfg, dl).await,
                _ => panic!("unknown plugin"),
            }
        })
    });
    match r {
        Ok(_) => PluginResult { ok: true, err: String::new(), data: msg.data().clone(), metadata: msg.metadata().clone() },
        Err(e) => PluginResult { ok: false, err: format!("{e:?}"), data: msg.data().clone(), metadata: msg.metadata().clone() },
    }
}
