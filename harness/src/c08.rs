//! C08: JSON conversion is lossless and agrees with the MT serialisation.

use crate::msgcheck::{Contents, block4_text, concretise_salted, full_message, parse_case};
use crate::plugins::run_plugin;
use crate::registry::parse_by_tag;
use crate::session;
use crate::util::*;
use serde_json::{Value, json};
use std::collections::BTreeMap;
use std::io::BufRead;

/// empty placeholders ("" / [] / {}) under tag-like keys, and non-finite numbers
fn scan(v: &Value, key: &str, path: &str, bad: &mut Vec<String>) {
    let taglike = key.len() >= 2 && key.as_bytes()[0].is_ascii_digit() && key.as_bytes()[1].is_ascii_digit();
    match v {
        Value::String(s) if s.is_empty() && taglike => bad.push(format!("empty-string:{}", key)),
        Value::Array(a) => {
            if a.is_empty() && taglike { bad.push(format!("empty-array:{}", key)); }
            for x in a { scan(x, key, path, bad); }
        }
        Value::Object(o) => {
            if o.is_empty() && taglike { bad.push(format!("empty-object:{}", key)); }
            for (k, x) in o { scan(x, k, path, bad); }
        }
        Value::Number(n) => { if n.as_f64().map(|f| !f.is_finite()).unwrap_or(false) { bad.push(format!("non-finite:{}", key)); } }
        _ => {}
    }
}

pub fn run(args: &[String]) -> i32 {
    let walks = arg(args, "--walks").expect("--walks");
    let field_cases = arg(args, "--fields");
    let out_path = arg(args, "--out").expect("--out");
    let policies: usize = arg(args, "--policies").and_then(|s| s.parse().ok()).unwrap_or(3);
    let (mut contents, _) = Contents::load(&arg(args, "--contents").map(|s| s.to_string()).unwrap_or_else(crate::util::contents_default));
    if let Some(p) = field_cases { contents.load_pool(p); }
    let mut evaluated = 0u64;
    let mut nontrivial = 0u64;
    let mut violations: BTreeMap<String, (u64, Value)> = BTreeMap::new();
    let mut samples: Vec<Value> = Vec::new();
    let f = std::io::BufReader::new(std::fs::File::open(walks).expect("walks"));
    // jobs: every walk x content policy, then every boundary content of the pool inside a host message of its own
    // (the rotation of pool contents over the walks reaches each content only by chance; a value such as a statement
    // line without customer reference must meet the JSON codec in every run)
    struct Job { mt: String, raw: Value, policy: usize, text: String, nfields: usize }
    let mut jobs: Vec<Job> = Vec::new();
    let mut hosts: BTreeMap<String, (String, Vec<(String, String)>, usize)> = BTreeMap::new();
    for (case_id, line) in f.lines().map_while(|l| l.ok()).enumerate() {
        let v: Value = match serde_json::from_str(&line) { Ok(v) => v, Err(_) => continue };
        let c = parse_case(v);
        if !c.muts.is_empty() { continue; }
        for policy in 0..policies {
            let fields = match concretise_salted(&contents, &c.toks, policy, case_id) { Some(f) => f, None => continue };
            let text = full_message(&c.mt, &block4_text(&fields));
            if policy == 0 && session::typed(&c.mt, &text).is_ok() {
                for (i, (tag, _)) in fields.iter().enumerate() {
                    hosts.entry(tag.clone()).or_insert_with(|| (c.mt.clone(), fields.clone(), i));
                }
            }
            jobs.push(Job { mt: c.mt.clone(), raw: c.raw.clone(), policy, text, nfields: fields.len() });
        }
    }
    let mut pool_jobs = 0u64;
    for (tag, list) in contents.pool.iter() {
        if let Some((mt, base, pos)) = hosts.get(tag) {
            for content in list {
                let mut fields = base.clone();
                fields[*pos].1 = content.clone();
                jobs.push(Job { mt: mt.clone(), raw: json!({"pool": tag, "content": content}), policy: 0, text: full_message(mt, &block4_text(&fields)), nfields: fields.len() });
                pool_jobs += 1;
            }
        }
    }
    for job in jobs {
        let c = &job;
        {
            let (policy, text) = (job.policy, job.text.clone());
            let ty = match session::typed(&c.mt, &text) { Ok(t) => t, Err(_) => continue };
            evaluated += 1;
            if job.nfields > 4 { nontrivial += 1; }
            let replay = json!({"kind": "json", "mt": c.mt, "case": c.raw, "policy": policy, "text": text});
            // (a boundary content placed in a host names itself in the signature)
            let suffix = match (c.raw["pool"].as_str(), c.raw["content"].as_str()) {
                (Some(t), Some("")) => format!("|pool:{}:empty", t),
                (Some(t), _) => format!("|pool:{}", t),
                _ => String::new(),
            };
            let mut hit = |sig: String, detail: Value| {
                let mut r = replay.clone(); r["detail"] = detail;
                let e = violations.entry(format!("{}{}", sig, suffix)).or_insert((0, r)); e.0 += 1;
            };
            // JSON -> message -> JSON / MT
            match &ty.json_roundtrip {
                Err(e) => hit(format!("C08|MT{}|from-json-failed", c.mt), json!({"err": e})),
                Ok((j2, mt2)) => {
                    if j2 != &ty.json { hit(format!("C08|MT{}|json-roundtrip-value-differs", c.mt), json!({})); }
                    if mt2 != &ty.mt { hit(format!("C08|MT{}|json-roundtrip-mt-differs", c.mt), json!({"direct": ty.mt, "via_json": mt2})); }
                    if !ty.json_roundtrip_equal { hit(format!("C08|MT{}|json-roundtrip-typed-value-differs", c.mt), json!({})); }
                }
            }
            // publishing the JSON gives the direct serialisation
            let pr = run_plugin("publish_mt", json!({"json": ty.json}), json!({"source": "json", "target": "out"}));
            if !pr.ok { hit(format!("C08|MT{}|publish-failed", c.mt), json!({"err": pr.err.chars().take(300).collect::<String>()})); }
            else if pr.data["out"].as_str() != Some(ty.mt.as_str()) { hit(format!("C08|MT{}|publish-differs-from-serialisation", c.mt), json!({"direct": ty.mt, "published": pr.data["out"]})); }
            // the parse plugin's JSON is the typed JSON
            let pp = run_plugin("parse_mt", json!({"mt": text}), json!({"source": "mt", "target": "out"}));
            if pp.ok && pp.data["out"] != ty.json { hit(format!("C08|MT{}|plugin-json-differs-from-typed", c.mt), json!({})); }
            // placeholders and numbers
            let mut bad = Vec::new();
            scan(&ty.json["fields"], "", "", &mut bad);
            for b in bad { hit(format!("C08|MT{}|{}", c.mt, b), json!({})); }
            if samples.len() < 3 && job.nfields > 10 { samples.push(json!({"mt": c.mt, "text": text})); }
        }
    }
    // envelope variety: the hand-written header codecs (input / output application header, all
    // block-3 tags, trailer) through the same JSON round trip, on the first walk of every type
    {
        use crate::c10::{B1, B3_ORDER, B5_ORDER, b2_text, tagtext};
        let f = std::io::BufReader::new(std::fs::File::open(walks).expect("walks"));
        let mut seen: std::collections::BTreeSet<String> = Default::default();
        for line in f.lines().map_while(|l| l.ok()) {
            let v: Value = match serde_json::from_str(&line) { Ok(v) => v, Err(_) => continue };
            let c = parse_case(v);
            if !c.muts.is_empty() || seen.contains(&c.mt) { continue; }
            let fields = match concretise_salted(&contents, &c.toks, 0, 0) { Some(f) => f, None => continue };
            let b4 = block4_text(&fields);
            if session::typed(&c.mt, &full_message(&c.mt, &b4)).is_err() { continue; }
            seen.insert(c.mt.clone());
            for shape in ["I_P", "I_PM", "I_PMOOO", "O_P", "O"] {
                for (b3all, b5all) in [(false, false), (true, false), (true, true)] {
                    let b2 = b2_text(shape).replacen("103", &c.mt, 1);
                    let mut text = format!("{{1:{}}}{{2:{}}}", B1, b2);
                    if b3all { text.push_str("{3:"); for (t, val) in B3_ORDER { text.push_str(&tagtext(t, val)); } text.push('}'); }
                    text.push_str(&format!("{{4:{}-}}", b4));
                    if b5all { text.push_str("{5:"); for (t, val) in B5_ORDER.iter().filter(|(t, _)| ["CHK", "TNG", "DLM", "MAC"].contains(t)) { text.push_str(&tagtext(t, val)); } text.push('}'); }
                    let ty = match session::typed(&c.mt, &text) { Ok(t) => t, Err(_) => continue };
                    evaluated += 1;
                    nontrivial += 1;
                    let replay = json!({"kind": "json-envelope", "mt": c.mt, "text": text});
                    let sig = match &ty.json_roundtrip {
                        Err(_) => Some(format!("C08|envelope|{}|b3={}|b5={}|from-json-failed", shape, b3all, b5all)),
                        Ok((j2, _)) if j2 != &ty.json => Some(format!("C08|envelope|{}|b3={}|b5={}|json-roundtrip-value-differs", shape, b3all, b5all)),
                        Ok((_, mt2)) if mt2 != &ty.mt => Some(format!("C08|envelope|{}|b3={}|b5={}|json-roundtrip-mt-differs", shape, b3all, b5all)),
                        _ => None,
                    };
                    if let Some(sig) = sig {
                        let e = violations.entry(sig).or_insert((0, replay)); e.0 += 1;
                    }
                }
            }
        }
    }
    // field level: every accepted content of the shape space
    let mut field_eval = 0u64;
    if let Some(p) = field_cases {
        let f = std::io::BufReader::new(std::fs::File::open(p).expect("fields"));
        for line in f.lines().map_while(|l| l.ok()) {
            let c: Value = match serde_json::from_str(&line) { Ok(v) => v, Err(_) => continue };
            let tag = c["tag"].as_str().unwrap_or("");
            let label = c["l"].as_str().unwrap_or("");
            let content: String = c["s"].as_array().map(|a| a.iter().filter_map(|x| x.as_str()).collect::<Vec<_>>().concat()).unwrap_or_default()
                .replace("<MB>", "\u{e9}").replace("<AD>", "\u{661}");
            if let Ok(Some(Ok(o))) = guarded(|| parse_by_tag(tag, &content)) {
                field_eval += 1;
                let replay = json!({"kind": "json-field", "tag": tag, "label": label, "content": content});
                let mut hit = |sig: String, detail: Value| {
                    let mut r = replay.clone(); r["detail"] = detail;
                    let e = violations.entry(sig).or_insert((0, r)); e.0 += 1;
                };
                match &o.via_json {
                    Err(e) => hit(format!("C08|Field{}|from-json-failed", tag), json!({"err": e, "json": o.json})),
                    Ok((ser2, dbg2, j2)) => {
                        if ser2 != &o.ser { hit(format!("C08|Field{}|json-roundtrip-mt-differs", tag), json!({"ser": o.ser, "ser2": ser2})); }
                        else if j2 != &o.json { hit(format!("C08|Field{}|json-roundtrip-value-differs", tag), json!({})); }
                        // same text, same JSON, yet a different typed value (e.g. another century)
                        else if dbg2 != &o.debug { hit(format!("C08|Field{}|json-roundtrip-typed-value-differs", tag), json!({"value": o.debug, "via_json": dbg2})); }
                    }
                }
                let mut bad = Vec::new();
                fn nums(v: &Value, bad: &mut Vec<String>) {
                    match v { Value::Number(n) => if n.as_f64().map(|f| !f.is_finite()).unwrap_or(false) { bad.push("non-finite".into()); },
                              Value::Array(a) => a.iter().for_each(|x| nums(x, bad)), Value::Object(o) => o.values().for_each(|x| nums(x, bad)), _ => {} }
                }
                nums(&o.json, &mut bad);
                for b in bad { hit(format!("C08|Field{}|{}", tag, b), json!({})); }
            }
        }
    }
    let violations: Vec<Value> = violations.iter().map(|(sig, (n, r))| json!({"sig": sig, "count": n, "replay": r})).collect();
    std::fs::write(out_path, json!({"evaluated": evaluated, "field_level": field_eval, "distinct_nontrivial": nontrivial,
        "pool_contents_in_hosts": pool_jobs, "violations": violations, "samples": samples}).to_string()).expect("write");
    0
}
