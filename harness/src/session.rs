//! A parsed message and everything the public API derives from it, obtained through the
//! typed API of one message type. Shared by C08 C12 C13.

use crate::util::*;
use crate::with_mt;
use serde_json::Value;
use swift_mt_message::SwiftMessage;
use swift_mt_message::parser::SwiftParser;
use swift_mt_message::traits::SwiftMessageBody;

#[derive(Clone, Debug)]
pub struct TypedInfo {
    /// serde_json::to_value(&SwiftMessage<T>)
    pub json: Value,
    /// to_mt_message()
    pub mt: String,
    /// validate_network_rules(false) as (code, field, rendered)
    pub full: Vec<(String, String, String)>,
    /// validate_network_rules(true)
    pub first: Vec<(String, String, String)>,
    /// second call of validate_network_rules(false)
    pub full_again: Vec<(String, String, String)>,
    /// SwiftMessage::validate(): (is_valid, rendered errors)
    pub msg_validate: (bool, Vec<String>),
    /// JSON after all the validation calls (must equal `json`)
    pub json_after: Value,
    /// from_value(json) -> to_value / to_mt_message
    pub json_roundtrip: Result<(Value, String), String>,
    /// the message rebuilt from its JSON equals the parsed message as a typed value ({:?} compared)
    pub json_roundtrip_equal: bool,
}

/// rule code of a backward-compatible ValidationError (its text is compared elsewhere)
pub fn rule_of(e: &swift_mt_message::ValidationError) -> String {
    match e {
        swift_mt_message::ValidationError::BusinessRuleValidation { rule_name, .. } => rule_name.clone(),
        other => other.to_string(),
    }
}

fn errs(v: Vec<swift_mt_message::errors::SwiftValidationError>) -> Vec<(String, String, String)> {
    v.iter().map(|e| (e.error_code().to_string(), e.field().to_string(), e.to_string())).collect()
}

fn typed_info<T: SwiftMessageBody + serde::de::DeserializeOwned>(text: &str) -> Result<TypedInfo, String> {
    let m = match guarded(|| SwiftParser::parse::<T>(text)) {
        Err(p) => return Err(format!("panic:{p}")),
        Ok(Err(e)) => return Err(format!("error:{}", serde_json::to_value(&e).map(|v| v.to_string()).unwrap_or_default())),
        Ok(Ok(m)) => m,
    };
    guarded(|| {
        let json = serde_json::to_value(&m).unwrap_or(Value::Null);
        let mt = m.to_mt_message();
        let first = errs(m.fields.validate_network_rules(true));
        let full = errs(m.fields.validate_network_rules(false));
        let vr = m.validate();
        let full_again = errs(m.fields.validate_network_rules(false));
        let json_after = serde_json::to_value(&m).unwrap_or(Value::Null);
        let mut json_roundtrip_equal = true;
        let json_roundtrip = match serde_json::from_value::<SwiftMessage<T>>(json.clone()) {
            Ok(m2) => {
                json_roundtrip_equal = format!("{:?}", m2.fields) == format!("{:?}", m.fields);
                Ok((serde_json::to_value(&m2).unwrap_or(Value::Null), m2.to_mt_message()))
            }
            Err(e) => Err(e.to_string()),
        };
        TypedInfo {
            json, mt, full, first, full_again,
            msg_validate: (vr.is_valid, vr.errors.iter().map(rule_of).collect()),
            json_after, json_roundtrip, json_roundtrip_equal,
        }
    })
    .map_err(|p| format!("panic:{p}"))
}

/// the error-collecting twin of the typed API: (JSON of the message, its MT text, number of collected errors)
fn typed_collect_info<T: SwiftMessageBody>(text: &str) -> Result<(Value, String, usize), String> {
    use swift_mt_message::errors::ParseResult;
    match guarded(|| SwiftParser::new().parse_with_errors::<T>(text)) {
        Err(p) => Err(format!("panic:{p}")),
        Ok(Err(e)) => Err(format!("error:{}", serde_json::to_value(&e).map(|v| v.to_string()).unwrap_or_default())),
        Ok(Ok(ParseResult::Failure(es))) => Err(format!("error:{}", es.iter().map(|e| serde_json::to_value(e).map(|v| v.to_string()).unwrap_or_default()).collect::<Vec<_>>().join(" "))),
        Ok(Ok(ParseResult::Success(m))) => guarded(|| (serde_json::to_value(&m).unwrap_or(Value::Null), m.to_mt_message(), 0)).map_err(|p| format!("panic:{p}")),
        Ok(Ok(ParseResult::PartialSuccess(m, es))) => guarded(|| (serde_json::to_value(&m).unwrap_or(Value::Null), m.to_mt_message(), es.len())).map_err(|p| format!("panic:{p}")),
    }
}

pub fn typed_collect(mt: &str, text: &str) -> Result<(Value, String, usize), String> {
    with_mt!(mt, T => typed_collect_info::<T>(text), else Err("unsupported-by-harness".into()))
}

pub fn typed(mt: &str, text: &str) -> Result<TypedInfo, String> {
    with_mt!(mt, T => typed_info::<T>(text), else Err("unsupported-by-harness".into()))
}

#[derive(Clone, Debug)]
pub struct AutoInfo {
    pub message_type: String,
    /// the "mt_type" tag of the wrapper's JSON, and what the wrapper rebuilt from that JSON says it is
    pub json_tag: String,
    pub json_back: Result<String, String>,
    /// to_value of the wrapper enum, with the "mt_type" tag removed
    pub json: Value,
    pub validate: (bool, Vec<String>),
}

pub fn auto(text: &str) -> Result<AutoInfo, String> {
    match guarded(|| SwiftParser::parse_auto(text)) {
        Err(p) => Err(format!("panic:{p}")),
        Ok(Err(e)) => Err(format!("error:{}", serde_json::to_value(&e).map(|v| v.to_string()).unwrap_or_default())),
        Ok(Ok(p)) => guarded(|| {
            let mut json = serde_json::to_value(&p).unwrap_or(Value::Null);
            let json_tag = json["mt_type"].as_str().unwrap_or("").to_string();
            let json_back = serde_json::from_value::<swift_mt_message::ParsedSwiftMessage>(json.clone())
                .map(|q| q.message_type().to_string()).map_err(|e| e.to_string());
            if let Some(o) = json.as_object_mut() {
                o.remove("mt_type");
            }
            let vr = p.validate();
            AutoInfo {
                message_type: p.message_type().to_string(),
                json_tag, json_back,
                json,
                validate: (vr.is_valid, vr.errors.iter().map(rule_of).collect()),
            }
        })
        .map_err(|p| format!("panic:{p}")),
    }
}

/// the wrapper's 30 + 30 typed accessors: for every type, what as_mtNNN() gives (JSON of the message, or None)
pub fn accessors(text: &str) -> Result<Vec<(&'static str, Option<Value>)>, String> {
    let p = match guarded(|| SwiftParser::parse_auto(text)) {
        Err(pn) => return Err(format!("panic:{pn}")),
        Ok(Err(e)) => return Err(format!("error:{}", serde_json::to_value(&e).map(|v| v.to_string()).unwrap_or_default())),
        Ok(Ok(p)) => p,
    };
    guarded(|| vec![
        ("101", p.as_mt101().map(|m| serde_json::to_value(m).unwrap_or(Value::Null))),
        ("103", p.as_mt103().map(|m| serde_json::to_value(m).unwrap_or(Value::Null))),
        ("104", p.as_mt104().map(|m| serde_json::to_value(m).unwrap_or(Value::Null))),
        ("107", p.as_mt107().map(|m| serde_json::to_value(m).unwrap_or(Value::Null))),
        ("110", p.as_mt110().map(|m| serde_json::to_value(m).unwrap_or(Value::Null))),
        ("111", p.as_mt111().map(|m| serde_json::to_value(m).unwrap_or(Value::Null))),
        ("112", p.as_mt112().map(|m| serde_json::to_value(m).unwrap_or(Value::Null))),
        ("190", p.as_mt190().map(|m| serde_json::to_value(m).unwrap_or(Value::Null))),
        ("191", p.as_mt191().map(|m| serde_json::to_value(m).unwrap_or(Value::Null))),
        ("192", p.as_mt192().map(|m| serde_json::to_value(m).unwrap_or(Value::Null))),
        ("196", p.as_mt196().map(|m| serde_json::to_value(m).unwrap_or(Value::Null))),
        ("199", p.as_mt199().map(|m| serde_json::to_value(m).unwrap_or(Value::Null))),
        ("200", p.as_mt200().map(|m| serde_json::to_value(m).unwrap_or(Value::Null))),
        ("202", p.as_mt202().map(|m| serde_json::to_value(m).unwrap_or(Value::Null))),
        ("204", p.as_mt204().map(|m| serde_json::to_value(m).unwrap_or(Value::Null))),
        ("205", p.as_mt205().map(|m| serde_json::to_value(m).unwrap_or(Value::Null))),
        ("210", p.as_mt210().map(|m| serde_json::to_value(m).unwrap_or(Value::Null))),
        ("290", p.as_mt290().map(|m| serde_json::to_value(m).unwrap_or(Value::Null))),
        ("291", p.as_mt291().map(|m| serde_json::to_value(m).unwrap_or(Value::Null))),
        ("292", p.as_mt292().map(|m| serde_json::to_value(m).unwrap_or(Value::Null))),
        ("296", p.as_mt296().map(|m| serde_json::to_value(m).unwrap_or(Value::Null))),
        ("299", p.as_mt299().map(|m| serde_json::to_value(m).unwrap_or(Value::Null))),
        ("900", p.as_mt900().map(|m| serde_json::to_value(m).unwrap_or(Value::Null))),
        ("910", p.as_mt910().map(|m| serde_json::to_value(m).unwrap_or(Value::Null))),
        ("920", p.as_mt920().map(|m| serde_json::to_value(m).unwrap_or(Value::Null))),
        ("935", p.as_mt935().map(|m| serde_json::to_value(m).unwrap_or(Value::Null))),
        ("940", p.as_mt940().map(|m| serde_json::to_value(m).unwrap_or(Value::Null))),
        ("941", p.as_mt941().map(|m| serde_json::to_value(m).unwrap_or(Value::Null))),
        ("942", p.as_mt942().map(|m| serde_json::to_value(m).unwrap_or(Value::Null))),
        ("950", p.as_mt950().map(|m| serde_json::to_value(m).unwrap_or(Value::Null))),
    ]).map_err(|pn| format!("panic:{pn}"))
}

/// into_mtNNN() of the wrapper for one type
pub fn accessor_into(text: &str, t: &str) -> Result<Option<Value>, String> {
    let p = match guarded(|| SwiftParser::parse_auto(text)) {
        Err(pn) => return Err(format!("panic:{pn}")),
        Ok(Err(e)) => return Err(format!("error:{}", serde_json::to_value(&e).map(|v| v.to_string()).unwrap_or_default())),
        Ok(Ok(p)) => p,
    };
    guarded(move || match t {
        "101" => p.into_mt101().map(|m| serde_json::to_value(&m).unwrap_or(Value::Null)),
        "103" => p.into_mt103().map(|m| serde_json::to_value(&m).unwrap_or(Value::Null)),
        "104" => p.into_mt104().map(|m| serde_json::to_value(&m).unwrap_or(Value::Null)),
        "107" => p.into_mt107().map(|m| serde_json::to_value(&m).unwrap_or(Value::Null)),
        "110" => p.into_mt110().map(|m| serde_json::to_value(&m).unwrap_or(Value::Null)),
        "111" => p.into_mt111().map(|m| serde_json::to_value(&m).unwrap_or(Value::Null)),
        "112" => p.into_mt112().map(|m| serde_json::to_value(&m).unwrap_or(Value::Null)),
        "190" => p.into_mt190().map(|m| serde_json::to_value(&m).unwrap_or(Value::Null)),
        "191" => p.into_mt191().map(|m| serde_json::to_value(&m).unwrap_or(Value::Null)),
        "192" => p.into_mt192().map(|m| serde_json::to_value(&m).unwrap_or(Value::Null)),
        "196" => p.into_mt196().map(|m| serde_json::to_value(&m).unwrap_or(Value::Null)),
        "199" => p.into_mt199().map(|m| serde_json::to_value(&m).unwrap_or(Value::Null)),
        "200" => p.into_mt200().map(|m| serde_json::to_value(&m).unwrap_or(Value::Null)),
        "202" => p.into_mt202().map(|m| serde_json::to_value(&m).unwrap_or(Value::Null)),
        "204" => p.into_mt204().map(|m| serde_json::to_value(&m).unwrap_or(Value::Null)),
        "205" => p.into_mt205().map(|m| serde_json::to_value(&m).unwrap_or(Value::Null)),
        "210" => p.into_mt210().map(|m| serde_json::to_value(&m).unwrap_or(Value::Null)),
        "290" => p.into_mt290().map(|m| serde_json::to_value(&m).unwrap_or(Value::Null)),
        "291" => p.into_mt291().map(|m| serde_json::to_value(&m).unwrap_or(Value::Null)),
        "292" => p.into_mt292().map(|m| serde_json::to_value(&m).unwrap_or(Value::Null)),
        "296" => p.into_mt296().map(|m| serde_json::to_value(&m).unwrap_or(Value::Null)),
        "299" => p.into_mt299().map(|m| serde_json::to_value(&m).unwrap_or(Value::Null)),
        "900" => p.into_mt900().map(|m| serde_json::to_value(&m).unwrap_or(Value::Null)),
        "910" => p.into_mt910().map(|m| serde_json::to_value(&m).unwrap_or(Value::Null)),
        "920" => p.into_mt920().map(|m| serde_json::to_value(&m).unwrap_or(Value::Null)),
        "935" => p.into_mt935().map(|m| serde_json::to_value(&m).unwrap_or(Value::Null)),
        "940" => p.into_mt940().map(|m| serde_json::to_value(&m).unwrap_or(Value::Null)),
        "941" => p.into_mt941().map(|m| serde_json::to_value(&m).unwrap_or(Value::Null)),
        "942" => p.into_mt942().map(|m| serde_json::to_value(&m).unwrap_or(Value::Null)),
        "950" => p.into_mt950().map(|m| serde_json::to_value(&m).unwrap_or(Value::Null)),
        _ => None,
    }).map_err(|pn| format!("panic:{pn}"))
}
