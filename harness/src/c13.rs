//! C13: coherence of the validation entry points. Records, per parsed message, a history of
//! validation calls (order chosen from a fixed family by message index) for ValidateTrace.tla.

use crate::msgcheck::{Contents, block4_text, concretise, full_message, parse_case};
use crate::plugins::run_plugin;
use crate::session::rule_of;
use crate::util::*;
use crate::with_mt;
use serde_json::{Value, json};
use std::io::{BufRead, Write};
use swift_mt_message::parser::SwiftParser;
use swift_mt_message::traits::SwiftMessageBody;

const ORDERS: &[&[&str]] = &[
    &["T", "F", "msg", "wrapper", "plugin", "F", "T"],
    &["F", "T", "plugin", "msg", "F", "wrapper", "T"],
    &["msg", "F", "F", "T", "T", "wrapper", "plugin"],
    &["wrapper", "T", "msg", "F", "plugin", "T", "F"],
    &["plugin", "F", "T", "F", "T", "msg", "wrapper"],
    &["T", "T", "F", "F", "msg", "plugin", "wrapper"],
];

fn history<T: SwiftMessageBody + serde::de::DeserializeOwned>(id: usize, mt: &str, text: &str, order: &[&str]) -> Result<Vec<Value>, String> {
    let m = match guarded(|| SwiftParser::parse::<T>(text)) {
        Err(p) => return Err(format!("panic:{p}")),
        Ok(Err(_)) => return Err("rejected".into()),
        Ok(Ok(m)) => m,
    };
    guarded(|| {
        let before = serde_json::to_value(&m).unwrap_or(Value::Null);
        let mut ev = vec![json!({"e": "begin", "id": id, "mt": mt})];
        for call in order {
            match *call {
                "T" | "F" => {
                    let stop = *call == "T";
                    let errs: Vec<String> = m.fields.validate_network_rules(stop).iter()
                        .map(|e| format!("{}|{}|{}", e.error_code(), e.field(), e)).collect();
                    ev.push(json!({"e": "rules", "stop": stop, "errs": errs}));
                }
                "msg" => {
                    let vr = m.validate();
                    ev.push(json!({"e": "adapter", "api": "message", "valid": vr.is_valid, "n": vr.errors.len(),
                                   "codes": vr.errors.iter().map(rule_of).collect::<Vec<_>>()}));
                }
                "wrapper" => {
                    if let Ok(p) = SwiftParser::parse_auto(text) {
                        let vr = p.validate();
                        ev.push(json!({"e": "adapter", "api": "wrapper", "valid": vr.is_valid, "n": vr.errors.len(),
                                       "codes": vr.errors.iter().map(rule_of).collect::<Vec<_>>()}));
                    }
                }
                "plugin" => {
                    let r = run_plugin("validate_mt", json!({"mt": text}), json!({"source": "mt", "target": "out"}));
                    if r.ok {
                        ev.push(json!({"e": "adapter", "api": "plugin", "valid": r.data["out"]["valid"].as_bool().unwrap_or(false),
                                       "n": r.data["out"]["errors"].as_array().map(|a| a.len()).unwrap_or(0), "codes": []}));
                    }
                }
                _ => {}
            }
        }
        let after = serde_json::to_value(&m).unwrap_or(Value::Null);
        ev.push(json!({"e": "end", "unchanged": before == after}));
        ev
    })
    .map_err(|p| format!("panic:{p}"))
}

pub fn run(args: &[String]) -> i32 {
    let walks = arg(args, "--walks");
    let texts = arg(args, "--texts");
    let traces = arg(args, "--traces").expect("--traces");
    let out_path = arg(args, "--out").expect("--out");
    let policies: usize = arg(args, "--policies").and_then(|s| s.parse().ok()).unwrap_or(2);
    let (contents, _) = Contents::load(&arg(args, "--contents").map(|s| s.to_string()).unwrap_or_else(crate::util::contents_default));
    let mut w = std::io::BufWriter::new(std::fs::File::create(traces).expect("traces"));
    let mut inputs: Vec<(String, String)> = Vec::new();
    if let Some(p) = walks {
        let f = std::io::BufReader::new(std::fs::File::open(p).expect("walks"));
        for line in f.lines().map_while(|l| l.ok()) {
            let v: Value = match serde_json::from_str(&line) { Ok(v) => v, Err(_) => continue };
            let c = parse_case(v);
            if !c.muts.is_empty() {
                continue;
            }
            for policy in 0..policies {
                if let Some(fl) = concretise(&contents, &c.toks, policy) {
                    inputs.push((c.mt.clone(), full_message(&c.mt, &block4_text(&fl))));
                }
            }
        }
    }
    if let Some(p) = texts {
        let f = std::io::BufReader::new(std::fs::File::open(p).expect("texts"));
        for line in f.lines().map_while(|l| l.ok()) {
            if let Ok(v) = serde_json::from_str::<Value>(&line) {
                if let (Some(mt), Some(t)) = (v["mt"].as_str(), v["text"].as_str()) {
                    inputs.push((mt.to_string(), t.to_string()));
                }
            }
        }
    }
    let mut n = 0u64;
    let mut events = 0u64;
    let mut with_errors = 0u64;
    let mut multi = 0u64;
    let mut rejected = 0u64;
    let mut violations: Vec<Value> = Vec::new();
    let mut samples: Vec<Value> = Vec::new();
    let mut texts_by_id: Vec<Value> = Vec::new();
    for (id, (mt, text)) in inputs.iter().enumerate() {
        let order = ORDERS[id % ORDERS.len()];
        let r = with_mt!(mt.as_str(), T => history::<T>(id, mt, text, order), else Err("type".into()));
        match r {
            Ok(evs) => {
                n += 1;
                events += evs.len() as u64;
                let nerr = evs.iter().filter(|e| e["e"] == "rules" && e["stop"] == false).map(|e| e["errs"].as_array().map(|a| a.len()).unwrap_or(0)).max().unwrap_or(0);
                if nerr > 0 { with_errors += 1; }
                if nerr > 1 { multi += 1; }
                if samples.len() < 3 && nerr > 1 {
                    samples.push(json!({"mt": mt, "text": text, "history": evs}));
                }
                for e in evs {
                    let _ = writeln!(w, "{}", e);
                }
                texts_by_id.push(json!({"id": id, "mt": mt, "text": text}));
            }
            Err(e) if e.starts_with("panic") => violations.push(json!({"sig": format!("C13|MT{}|panic", mt), "replay": {"kind": "validate", "mt": mt, "text": text, "panic": e}})),
            Err(_) => rejected += 1,
        }
    }
    let _ = w.flush();
    std::fs::write(out_path, json!({"messages": n, "events": events, "with_errors": with_errors, "with_several_errors": multi,
        "rejected_by_parser": rejected, "violations": violations, "samples": samples, "texts": texts_by_id}).to_string()).expect("write");
    0
}
