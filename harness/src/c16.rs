//! C16: the public field-map tokeniser, the sequential consumption tracker and the
//! sequence splitter, driven by TLC-generated cases / histories.

use crate::tok;
use crate::util::*;
use serde_json::{Value, json};
use std::collections::{BTreeMap, HashMap};
use std::io::{BufRead, Write};
use swift_mt_message::parser::{
    FieldConsumptionTracker, SequenceConfig, find_field_with_variant_sequential_constrained,
    get_sequence_config, parse_block4_fields, split_into_sequences,
};

// ------------------------------------------------------------------------------------------
// tokeniser
// ------------------------------------------------------------------------------------------
fn concretise_line(ln: &Value, i: usize) -> String {
    let k = ln["k"].as_str().unwrap_or("");
    let txt = ln["txt"].as_str().unwrap_or("");
    match k {
        "T" => {
            let tag = ln["tag"].as_str().unwrap_or("");
            if txt.is_empty() { format!(":{}:", tag) } else if txt.ends_with('-') { format!(":{}:VALUE{}-", tag, i) } else { format!(":{}:VALUE{}", tag, i) }
        }
        "C" => match txt {
            "colon" => format!(":NOT A TAG {}", i),
            "marker" => format!("SEE :20: ABOVE {}", i),
            "dashy" => format!("-BULLET {}", i),
            "nearmarker" => ":20ABC NO COLON".to_string(),
            "nearnumbered" => ":50#12".to_string(),
            "enddash" => format!("REF PO-2024-{}-", i),
            _ => format!("CONT LINE {}", i),
        },
        "D" => "-".to_string(),
        "B" => String::new(),
        "J" => format!("JUNK {}", i),
        _ => String::new(),
    }
}

/// documented normalisation of the public map's keys
fn norm_tag(tag: &str) -> String {
    const KEEP: &[&str] = &[
        "11", "13", "21", "23", "25", "26", "28", "32", "33", "34", "37", "50", "51", "52", "53", "54",
        "55", "56", "57", "58", "59", "60", "62", "71", "77", "90",
    ];
    let num: String = tag.chars().take_while(|c| c.is_ascii_digit()).collect();
    if num.len() == tag.len() || KEEP.contains(&num.as_str()) { tag.to_string() } else { num }
}

/// Returns None if the property holds on this text, Some(kind) otherwise.
fn token_verdict(text: &str) -> (Option<String>, Value) {
    let reference = tok::tokenize_opt(text, true);
    let r = guarded(|| parse_block4_fields(text));
    let map = match r {
        Err(p) => return (Some(format!("panic:{}", p.split(':').next().unwrap_or(""))), json!({"panic": p})),
        Ok(Err(e)) => {
            // refusing a text with junk before the first field invents nothing
            if reference.junk || reference.tokens.is_empty() {
                return (None, json!({"err": e.to_string()}));
            }
            return (Some("rejected-wellformed".into()), json!({"err": e.to_string()}));
        }
        Ok(Ok(m)) => m,
    };
    let mut got: Vec<(usize, String, String)> = Vec::new();
    for (tag, vals) in &map {
        for (v, pos) in vals {
            got.push((*pos, tag.clone(), v.clone()));
        }
    }
    got.sort();
    let detail = json!({
        "got": got.iter().map(|g| json!([g.1, g.2, g.0])).collect::<Vec<_>>(),
        "want": reference.tokens.iter().map(|t| json!([norm_tag(&t.tag), t.content])).collect::<Vec<_>>(),
    });
    for w in got.windows(2) {
        if w[0].0 >= w[1].0 {
            return (Some("stamps-not-strictly-increasing".into()), detail);
        }
    }
    if got.len() > reference.tokens.len() {
        return (Some("invented".into()), detail);
    }
    if got.len() < reference.tokens.len() {
        return (Some("lost".into()), detail);
    }
    for (g, w) in got.iter().zip(reference.tokens.iter()) {
        if g.1 != norm_tag(&w.tag) {
            return (Some("wrong-tag".into()), detail);
        }
        if lf(g.2.trim()) != lf(w.content.trim()) {
            return (Some("wrong-content".into()), detail);
        }
    }
    (None, detail)
}

fn pattern(lines: &[Value]) -> String {
    lines
        .iter()
        .map(|l| {
            let k = l["k"].as_str().unwrap_or("");
            match k {
                "T" => format!("T{}", match l["txt"].as_str().unwrap_or("") { "" => "e", "X-" => "d", _ => "" }),
                "C" => format!("C{}", l["txt"].as_str().unwrap_or("")),
                o => o.to_string(),
            }
        })
        .collect::<Vec<_>>()
        .join(" ")
}

fn text_of(lines: &[Value], sep: &str) -> String {
    lines.iter().enumerate().map(|(i, l)| concretise_line(l, i + 1)).collect::<Vec<_>>().join(sep)
}

pub fn run_tokens(args: &[String]) -> i32 {
    let cases = arg(args, "--cases").expect("--cases");
    let out_path = arg(args, "--out").expect("--out");
    let f = std::io::BufReader::new(std::fs::File::open(cases).expect("cases"));
    let mut evaluated = 0u64;
    let mut twin_mismatch = 0u64;
    let mut violations: Vec<Value> = Vec::new();
    let mut subsumed = 0u64;
    let mut samples: Vec<Value> = Vec::new();
    let mut nontrivial = 0u64;
    for line in f.lines().map_while(|l| l.ok()) {
        let v: Value = match serde_json::from_str(&line) { Ok(v) => v, Err(_) => continue };
        let lines = v["lines"].as_array().cloned().unwrap_or_default();
        if lines.iter().any(|l| l["k"] != "T") || lines.len() > 1 {
            nontrivial += 1;
        }
        for (vi, sep) in ["\n", "\r\n"].iter().enumerate() {
            let text = text_of(&lines, sep);
            evaluated += 1;
            // trusted-base check: the Rust twin of Tok agrees with TLC's token list in shape
            let twin = tok::tokenize_opt(&text, true);
            let spec_toks = v["toks"].as_array().cloned().unwrap_or_default();
            let shape_ok = twin.tokens.len() == spec_toks.len()
                && twin.tokens.iter().zip(spec_toks.iter()).all(|(a, b)| {
                    b["tag"].as_str() == Some(a.tag.as_str())
                        && {
                            let body = b["body"].as_array().map(|x| x.len()).unwrap_or(0);
                            let n = if a.content.is_empty() { 1 } else { a.content.split('\n').count() };
                            // an empty first line followed by text keeps both lines
                            body == n || (body > n && a.content.is_empty())
                        }
                });
            if !shape_ok {
                twin_mismatch += 1;
                if samples.len() < 8 {
                    samples.push(json!({"twin_mismatch": pattern(&lines), "text": text}));
                }
                continue;
            }
            let (verdict, detail) = token_verdict(&text);
            if let Some(kind) = verdict {
                // report only minimal failing texts: no single-line deletion still fails the same way
                let mut minimal = true;
                for d in 0..lines.len() {
                    let mut sub = lines.clone();
                    sub.remove(d);
                    if sub.is_empty() {
                        continue;
                    }
                    let (v2, _) = token_verdict(&text_of(&sub, sep));
                    if v2.as_deref() == Some(kind.as_str()) {
                        minimal = false;
                        break;
                    }
                }
                if minimal {
                    let _ = vi;
                    let sig = format!("C16|tokenise|{}|{}", kind, pattern(&lines));
                    violations.push(json!({"sig": sig, "replay": {"kind": "tokens", "lines": lines, "sep": sep, "text": text}, "detail": detail}));
                } else {
                    subsumed += 1;
                }
            }
            if samples.len() < 3 {
                samples.push(json!({"lines": pattern(&lines), "text": text}));
            }
        }
    }
    let summary = json!({"evaluated": evaluated, "distinct_nontrivial": nontrivial, "twin_mismatch": twin_mismatch,
        "violations": violations, "subsumed_non_minimal": subsumed, "samples": samples});
    std::fs::write(out_path, summary.to_string()).expect("write");
    0
}

// ------------------------------------------------------------------------------------------
// tracker histories -> recorded trace
// ------------------------------------------------------------------------------------------
fn tagstr(b: &str, l: &str) -> String {
    format!("{}{}", b, l)
}

pub fn run_tracker(args: &[String]) -> i32 {
    let cases = arg(args, "--cases").expect("--cases");
    let traces = arg(args, "--traces").expect("--traces");
    let out_path = arg(args, "--out").expect("--out");
    let f = std::io::BufReader::new(std::fs::File::open(cases).expect("cases"));
    let mut w = std::io::BufWriter::new(std::fs::File::create(traces).expect("traces"));
    let mut n = 0u64;
    let mut events = 0u64;
    let mut samples: Vec<Value> = Vec::new();
    let mut nontrivial = 0u64;
    let mut panics: Vec<Value> = Vec::new();
    for (id, line) in f.lines().map_while(|l| l.ok()).enumerate() {
        let v: Value = match serde_json::from_str(&line) { Ok(v) => v, Err(_) => continue };
        let map = v["map"].as_array().cloned().unwrap_or_default();
        let ops = v["ops"].as_array().cloned().unwrap_or_default();
        let mut fields: HashMap<String, Vec<(String, usize)>> = HashMap::new();
        for o in &map {
            let tag = tagstr(o["b"].as_str().unwrap_or(""), o["l"].as_str().unwrap_or(""));
            let pos = o["pos"].as_u64().unwrap_or(0) as usize;
            fields.entry(tag).or_default().push((format!("v{}", pos), pos));
        }
        if ops.len() > 1 {
            nontrivial += 1;
        }
        let mut evs: Vec<Value> = vec![json!({"e": "begin", "id": id, "map": map})];
        let res = guarded(|| {
            let mut tracker = FieldConsumptionTracker::new();
            let mut evs: Vec<Value> = Vec::new();
            let empty: Vec<(String, usize)> = Vec::new();
            for op in &ops {
                let b = op["b"].as_str().unwrap_or("");
                let l = op["l"].as_str().unwrap_or("");
                let tag = tagstr(b, l);
                match op["op"].as_str().unwrap_or("") {
                    "get" => {
                        let vals = fields.get(&tag).unwrap_or(&empty);
                        let r = tracker.get_next_available(&tag, vals).map(|(_, p)| p as i64).unwrap_or(-1);
                        evs.push(json!({"e": "get", "b": b, "l": l, "res": r}));
                    }
                    "mark" => {
                        let pos = op["pos"].as_u64().unwrap_or(0) as usize;
                        tracker.mark_consumed(&tag, pos);
                        evs.push(json!({"e": "mark", "b": b, "l": l, "pos": pos}));
                    }
                    "consume" => {
                        let vals = fields.get(&tag).unwrap_or(&empty);
                        let r = tracker.get_next_available(&tag, vals).map(|(_, p)| p);
                        if let Some(p) = r {
                            tracker.mark_consumed(&tag, p);
                        }
                        evs.push(json!({"e": "consume", "b": b, "l": l, "res": r.map(|p| p as i64).unwrap_or(-1)}));
                    }
                    "find" => {
                        let vs: Vec<String> = op["v"].as_array().map(|a| a.iter().filter_map(|x| x.as_str().map(|s| s.to_string())).collect()).unwrap_or_default();
                        let vrefs: Vec<&str> = vs.iter().map(|s| s.as_str()).collect();
                        let valid: Option<&[&str]> = if vrefs.is_empty() { None } else { Some(&vrefs) };
                        let r = find_field_with_variant_sequential_constrained(&fields, b, &mut tracker, valid);
                        match r {
                            Some((val, variant, pos)) => evs.push(json!({"e": "find", "b": b, "v": vs, "res": pos, "rl": variant.unwrap_or_default(), "val": val, "expval": format!("v{}", pos)})),
                            None => evs.push(json!({"e": "find", "b": b, "v": vs, "res": -1, "rl": "", "val": "", "expval": ""})),
                        }
                    }
                    _ => {}
                }
            }
            evs
        });
        match res {
            Ok(mut e2) => evs.append(&mut e2),
            Err(p) => panics.push(json!({"sig": format!("C16|tracker|panic|{}", p.split(':').next().unwrap_or("")), "replay": {"kind": "tracker", "case": v, "panic": p}})),
        }
        evs.push(json!({"e": "end"}));
        n += 1;
        events += evs.len() as u64;
        if samples.len() < 3 {
            samples.push(json!({"history": v}));
        }
        for e in evs {
            let _ = writeln!(w, "{}", e);
        }
    }
    let _ = w.flush();
    std::fs::write(out_path, json!({"histories": n, "events": events, "distinct_nontrivial": nontrivial, "samples": samples, "violations": panics}).to_string()).expect("write");
    0
}

// ------------------------------------------------------------------------------------------
// split_into_sequences
// ------------------------------------------------------------------------------------------
pub fn run_split(args: &[String]) -> i32 {
    let cases = arg(args, "--cases").expect("--cases");
    let traces = arg(args, "--traces").expect("--traces");
    let out_path = arg(args, "--out").expect("--out");
    let f = std::io::BufReader::new(std::fs::File::open(cases).expect("cases"));
    let mut w = std::io::BufWriter::new(std::fs::File::create(traces).expect("traces"));
    let mut configs: Vec<(String, SequenceConfig)> = ["MT101", "MT104", "MT107", "MT110", "MT204", "MT999"]
        .iter().map(|m| (m.to_string(), get_sequence_config(m))).collect();
    configs.push(("marker61+C".into(), SequenceConfig { sequence_b_marker: "61".into(), sequence_c_fields: vec!["62".into(), "64".into(), "86".into()], has_sequence_c: true }));
    configs.push(("marker23".into(), SequenceConfig { sequence_b_marker: "23".into(), sequence_c_fields: vec![], has_sequence_c: false }));
    let mut n = 0u64;
    let mut violations: Vec<Value> = Vec::new();
    let mut samples: Vec<Value> = Vec::new();
    let mut id = 0usize;
    for line in f.lines().map_while(|l| l.ok()) {
        let v: Value = match serde_json::from_str(&line) { Ok(v) => v, Err(_) => continue };
        let tags: Vec<String> = v["tags"].as_array().map(|a| a.iter().filter_map(|x| x.as_str().map(|s| s.to_string())).collect()).unwrap_or_default();
        let mut fields: HashMap<String, Vec<(String, usize)>> = HashMap::new();
        for (i, t) in tags.iter().enumerate() {
            fields.entry(t.clone()).or_default().push((format!("v{}", i + 1), (i + 1) * 3));
        }
        for (name, cfg) in &configs {
            id += 1;
            n += 1;
            let r = guarded(|| split_into_sequences(&fields, cfg));
            let _ = writeln!(w, "{}", json!({"e": "begin", "id": id, "map": []}));
            match r {
                Ok(Ok(ps)) => {
                    let mut count: BTreeMap<(String, usize), usize> = BTreeMap::new();
                    let mut sizes = [0usize; 3];
                    let mut invented = 0usize;
                    for (si, m) in [&ps.sequence_a, &ps.sequence_b, &ps.sequence_c].iter().enumerate() {
                        for (tag, vals) in m.iter() {
                            for (val, pos) in vals {
                                sizes[si] += 1;
                                *count.entry((tag.clone(), *pos)).or_insert(0) += 1;
                                let exists = fields.get(tag).map(|vs| vs.iter().any(|(v0, p0)| v0 == val && p0 == pos)).unwrap_or(false);
                                if !exists {
                                    invented += 1;
                                }
                            }
                        }
                    }
                    let dup = count.values().filter(|c| **c > 1).count();
                    let lost = fields.iter().map(|(t, vs)| vs.iter().filter(|(_, p)| !count.contains_key(&(t.clone(), *p))).count()).sum::<usize>();
                    let _ = writeln!(w, "{}", json!({"e": "split", "cfg": name, "n": tags.len(), "na": sizes[0], "nb": sizes[1], "nc": sizes[2], "dup": dup, "lost": lost, "invented": invented}));
                }
                Ok(Err(e)) => violations.push(json!({"sig": format!("C16|split|error|{}", name), "replay": {"kind": "split", "tags": tags, "cfg": name, "err": e.to_string()}})),
                Err(p) => violations.push(json!({"sig": format!("C16|split|panic|{}", name), "replay": {"kind": "split", "tags": tags, "cfg": name, "panic": p}})),
            }
            // parse_repetitive_sequence with the same marker: the occurrences from the first marker on are dealt out
            // to the items, each to exactly one, in input order, every item opening with the marker
            {
                let marker = cfg.sequence_b_marker.clone();
                let rr = guarded(|| swift_mt_message::parser::sequence_parser::parse_repetitive_sequence::<swift_mt_message::messages::MT101>(&fields, &marker));
                match rr {
                    Ok(Ok(items)) => {
                        let first = tags.iter().position(|t| *t == marker);
                        let expected = first.map(|i| tags.len() - i).unwrap_or(0);
                        let markers = tags.iter().filter(|t| **t == marker).count();
                        let mut count: BTreeMap<(String, usize), usize> = BTreeMap::new();
                        let (mut total, mut invented, mut disorder, mut headless) = (0usize, 0usize, 0usize, 0usize);
                        let mut last_max = 0usize;
                        for it in &items {
                            let mut ps: Vec<(usize, String)> = Vec::new();
                            for (tag, vals) in it.iter() {
                                for (val, pos) in vals {
                                    total += 1;
                                    *count.entry((tag.clone(), *pos)).or_insert(0) += 1;
                                    if !fields.get(tag).map(|vs| vs.iter().any(|(v0, p0)| v0 == val && p0 == pos)).unwrap_or(false) { invented += 1; }
                                    ps.push((*pos, tag.clone()));
                                }
                            }
                            ps.sort();
                            if let Some((p0, t0)) = ps.first() {
                                if *t0 != marker { headless += 1; }
                                if *p0 <= last_max { disorder += 1; }
                            }
                            if ps.iter().skip(1).any(|(_, t)| *t == marker) { headless += 1; }
                            last_max = ps.last().map(|x| x.0).unwrap_or(last_max);
                        }
                        let dup = count.values().filter(|c| **c > 1).count();
                        let _ = writeln!(w, "{}", json!({"e": "rsplit", "cfg": name, "expected": expected, "total": total, "items": items.len(), "markers": markers,
                            "dup": dup, "invented": invented, "disorder": disorder, "headless": headless}));
                    }
                    Ok(Err(e)) => violations.push(json!({"sig": format!("C16|rsplit|error|{}", name), "replay": {"kind": "split", "tags": tags, "cfg": name, "err": e.to_string()}})),
                    Err(p) => violations.push(json!({"sig": format!("C16|rsplit|panic|{}", name), "replay": {"kind": "split", "tags": tags, "cfg": name, "panic": p}})),
                }
            }
            let _ = writeln!(w, "{}", json!({"e": "end"}));
            if samples.len() < 3 {
                samples.push(json!({"tags": tags, "cfg": name}));
            }
        }
    }
    let _ = w.flush();
    std::fs::write(out_path, json!({"splits": n, "violations": violations, "samples": samples}).to_string()).expect("write");
    0
}
