//! C14: the option letter decides the variant and is preserved; the heuristic parse() returns
//! only variants whose own parser accepts the content.

use crate::registry::{FAMILIES, parse_by_tag, parse_family};
use crate::util::*;
use serde_json::{Value, json};
use std::collections::{BTreeMap, BTreeSet};
use std::io::BufRead;

fn tag_of(ser: &str) -> String {
    ser.strip_prefix(':').and_then(|r| r.split(':').next()).unwrap_or("").to_string()
}

pub fn run(args: &[String]) -> i32 {
    let cases = arg(args, "--cases").expect("--cases (FieldFormats cases)");
    let out_path = arg(args, "--out").expect("--out");
    // contents per struct tag that the documented format admits (from FieldFormats)
    let mut by_tag: BTreeMap<String, BTreeSet<String>> = BTreeMap::new();
    let f = std::io::BufReader::new(std::fs::File::open(cases).expect("cases"));
    for line in f.lines().map_while(|l| l.ok()) {
        let c: Value = match serde_json::from_str(&line) { Ok(v) => v, Err(_) => continue };
        if c["accept"] != true { continue; }
        let content: String = c["s"].as_array().map(|a| a.iter().filter_map(|x| x.as_str()).collect::<Vec<_>>().concat()).unwrap_or_default();
        if content.contains('<') { continue; }
        by_tag.entry(c["tag"].as_str().unwrap_or("").to_string()).or_default().insert(content);
    }
    // hand-picked ambiguous contents (valid for several options)
    let ambiguous = ["DEUTDEFF", "/12345678\nDEUTDEFF", "DEUTDEFFXXX", "/C/12345678\nDEUTDEFF", "1/JOHN DOE\n2/MAIN ST",
                     "/ACC\n1/JOHN", "NEW YORK", "/A/12345\nNEW YORK", "/UKCLEARING123", "JOHN DOE\nDEUTDEFF",
                     "240719USD1,00", "USD1,00", "C240719USD1,00", "ABCDEFGH\nIJKLMNOP"];
    let mut evaluated = 0u64;
    let mut violations: BTreeMap<String, (u64, Value)> = BTreeMap::new();
    let mut samples: Vec<Value> = Vec::new();
    let mut nontrivial = 0u64;
    for (name, base, letters) in FAMILIES {
        // candidate contents: everything in the language of some option of the family + the ambiguous ones
        let mut contents: BTreeSet<String> = ambiguous.iter().map(|s| s.to_string()).collect();
        for l in letters.iter() {
            if let Some(s) = by_tag.get(&format!("{}{}", base, l)) { contents.extend(s.iter().cloned()); }
        }
        for content in &contents {
            // which options' own (struct-level) parsers accept the content
            let accepts: BTreeMap<&str, bool> = letters.iter().map(|l| {
                let ok = matches!(guarded(|| parse_by_tag(&format!("{}{}", base, l), content)), Ok(Some(Ok(_))));
                (*l, ok)
            }).collect();
            let n_ok = accepts.values().filter(|b| **b).count();
            if n_ok == 0 { continue; }
            if n_ok > 1 { nontrivial += 1; }
            let mut hit = |sig: String, detail: Value| {
                let e = violations.entry(sig).or_insert((0, json!({"kind": "variant", "family": name, "content": content, "detail": detail})));
                e.0 += 1;
            };
            // ---- the letter decides -------------------------------------------------------
            let mut probes: Vec<(String, Option<String>)> = letters.iter().map(|l| (l.to_string(), Some(l.to_string()))).collect();
            if letters.contains(&"") { probes.push(("".to_string(), None)); }
            for foreign in ["K", "Z", "B", "F"] {
                if !letters.contains(&foreign) { probes.push((format!("foreign:{}", foreign), Some(foreign.to_string()))); break; }
            }
            for (label, variant) in probes {
                evaluated += 1;
                let r = match guarded(|| parse_family(name, content, variant.as_deref(), false)) { Ok(Some(r)) => r, _ => continue };
                let is_foreign = label.starts_with("foreign");
                let letter = if is_foreign { "" } else { label.as_str() };
                match r {
                    Ok(o) => {
                        let got_tag = tag_of(&o.ser);
                        if is_foreign {
                            hit(format!("C14|{}|letter-not-in-family-accepted|as:{}", name, got_tag), json!({"letter": variant, "ser": o.ser}));
                        } else {
                            let want_tag = format!("{}{}", base, letter);
                            if got_tag != want_tag {
                                hit(format!("C14|{}|letter={}|parsed-as:{}|passed-as:{}", name, if letter.is_empty() { "none" } else { letter }, got_tag,
                                            if variant.is_none() { "None" } else { "Some" }), json!({"ser": o.ser}));
                            } else if !accepts[letter] {
                                hit(format!("C14|{}|letter={}|accepted-though-own-parser-rejects", name, if letter.is_empty() { "none" } else { letter }), json!({"ser": o.ser}));
                            }
                        }
                    }
                    Err(_) => {
                        if !is_foreign && accepts[letter] {
                            hit(format!("C14|{}|letter={}|rejected-though-own-parser-accepts", name, if letter.is_empty() { "none" } else { letter }), json!({}));
                        }
                    }
                }
            }
            // ---- the heuristic is sound ----------------------------------------------------
            evaluated += 1;
            if let Ok(Some(Ok(o))) = guarded(|| parse_family(name, content, None, true)) {
                let got_tag = tag_of(&o.ser);
                let letter = got_tag.strip_prefix(base).unwrap_or("?").to_string();
                if !letters.contains(&letter.as_str()) {
                    hit(format!("C14|{}|heuristic|variant-outside-family:{}", name, got_tag), json!({"ser": o.ser}));
                } else if !accepts[letter.as_str()] {
                    hit(format!("C14|{}|heuristic|chose:{}|own-parser-rejects", name, got_tag), json!({"ser": o.ser}));
                } else {
                    // serialise and re-parse with its letter: same value
                    let body = lf(&o.ser);
                    let body = body.strip_prefix(&format!(":{}:", got_tag)).unwrap_or(&body).to_string();
                    let v = if letter.is_empty() { None } else { Some(letter.as_str()) };
                    match guarded(|| parse_family(name, &body, v, false)) {
                        Ok(Some(Ok(o2))) if o2.json == o.json => {}
                        Ok(Some(Ok(_))) => hit(format!("C14|{}|heuristic|chose:{}|reparse-with-letter-differs", name, got_tag), json!({"ser": o.ser})),
                        _ => hit(format!("C14|{}|heuristic|chose:{}|reparse-with-letter-rejected", name, got_tag), json!({"ser": o.ser})),
                    }
                }
            }
            if samples.len() < 4 && n_ok > 1 {
                samples.push(json!({"family": name, "content": content, "options_accepting": accepts.iter().filter(|(_, b)| **b).map(|(l, _)| l.to_string()).collect::<Vec<_>>()}));
            }
        }
    }
    let violations: Vec<Value> = violations.iter().map(|(sig, (n, r))| json!({"sig": sig, "count": n, "replay": r})).collect();
    std::fs::write(out_path, json!({"evaluated": evaluated, "families": FAMILIES.len(), "ambiguous_contents": nontrivial,
        "violations": violations, "samples": samples}).to_string()).expect("write");
    0
}
