//! Small helpers: panic capture, deterministic RNG, JSON I/O.

use std::cell::RefCell;
use std::panic::{self, AssertUnwindSafe};

thread_local! {
    static LAST_PANIC: RefCell<Option<String>> = const { RefCell::new(None) };
}

/// Install a panic hook that records message + location instead of printing.
pub fn install_quiet_panic_hook() {
    panic::set_hook(Box::new(|info| {
        let loc = info
            .location()
            .map(|l| format!("{}:{}", l.file(), l.line()))
            .unwrap_or_else(|| "?".to_string());
        let msg = if let Some(s) = info.payload().downcast_ref::<&str>() {
            s.to_string()
        } else if let Some(s) = info.payload().downcast_ref::<String>() {
            s.clone()
        } else {
            "non-string panic".to_string()
        };
        LAST_PANIC.with(|p| *p.borrow_mut() = Some(format!("{loc}: {msg}")));
    }));
}

/// start of the library call in progress (every call of the library goes through `guarded`)
static IN_CALL: std::sync::Mutex<Option<std::time::Instant>> = std::sync::Mutex::new(None);
static WATCHDOG: std::sync::Once = std::sync::Once::new();
/// a library call without answer after this long ends the harness with exit code 42: no verdict, but at once
/// instead of at the check's time limit (the C07 harness has its own, earlier watchdog, which keeps the session)
const GENERIC_HANG_MS: u128 = 180_000;

fn ensure_watchdog() {
    WATCHDOG.call_once(|| {
        std::thread::spawn(|| loop {
            std::thread::sleep(std::time::Duration::from_secs(1));
            let t0 = IN_CALL.lock().map(|g| *g).unwrap_or(None);
            if let Some(t0) = t0 {
                if t0.elapsed().as_millis() > GENERIC_HANG_MS {
                    eprintln!("harness watchdog: a library call has not returned after {} ms", t0.elapsed().as_millis());
                    std::process::exit(42);
                }
            }
        });
    });
}

/// Run `f`, turning a panic into Err(description).
pub fn guarded<R>(f: impl FnOnce() -> R) -> Result<R, String> {
    ensure_watchdog();
    let outer = IN_CALL.lock().map(|mut g| { let was = *g; if was.is_none() { *g = Some(std::time::Instant::now()); } was }).unwrap_or(None);
    let r = guarded_inner(f);
    if outer.is_none() { if let Ok(mut g) = IN_CALL.lock() { *g = None; } }
    r
}

fn guarded_inner<R>(f: impl FnOnce() -> R) -> Result<R, String> {
    match panic::catch_unwind(AssertUnwindSafe(f)) {
        Ok(r) => Ok(r),
        Err(_) => Err(LAST_PANIC
            .with(|p| p.borrow_mut().take())
            .unwrap_or_else(|| "panic".to_string())),
    }
}

/// xorshift64* — deterministic, seedable from VERIF_SEED.
#[derive(Clone)]
pub struct Rng(pub u64);
impl Rng {
    pub fn new(seed: u64) -> Self {
        Rng(seed.wrapping_mul(0x9E3779B97F4A7C15) | 1)
    }
    pub fn next(&mut self) -> u64 {
        let mut x = self.0;
        x ^= x >> 12;
        x ^= x << 25;
        x ^= x >> 27;
        self.0 = x;
        x.wrapping_mul(0x2545F4914F6CDD1D)
    }
    pub fn below(&mut self, n: usize) -> usize {
        if n == 0 { 0 } else { (self.next() % n as u64) as usize }
    }
}

pub fn seed_from_env() -> u64 {
    std::env::var("VERIF_SEED")
        .ok()
        .and_then(|s| s.parse::<u64>().ok())
        .unwrap_or(1)
}

/// Canonical line endings: CRLF -> LF.
pub fn lf(s: &str) -> String {
    s.replace("\r\n", "\n")
}

pub fn crlf(s: &str) -> String {
    lf(s).replace('\n', "\r\n")
}

/// Parse the value of `--name` from args.
pub fn arg<'a>(args: &'a [String], name: &str) -> Option<&'a str> {
    args.iter()
        .position(|a| a == name)
        .and_then(|i| args.get(i + 1))
        .map(|s| s.as_str())
}

pub fn flag(args: &[String], name: &str) -> bool {
    args.iter().any(|a| a == name)
}

/// root of the verification tree (data/contents.json lives below it); VERIF_ROOT overrides /verif so that a
/// snapshot copy uses its own files
pub fn verif_root() -> String {
    std::env::var("VERIF_ROOT").unwrap_or_else(|_| "/verif".to_string())
}

pub fn contents_default() -> String {
    format!("{}/data/contents.json", verif_root())
}

/// root of the repository under test (VERIF_REPO overrides /repo)
pub fn repo_root() -> String {
    std::env::var("VERIF_REPO").unwrap_or_else(|_| "/repo".to_string())
}
