//! Small helpers: panic capture, deterministic RNG, JSON I/O.

use std::cell::RefCell;
use std::panic::{self, AssertUnwindSafe};

thread_local! {
    static LAST_PANIC: RefCell<Option<String>> = const { RefCell::new(None) };
}

/// Install a panic hook that records message + location instead of printing.
pub fn install_quiet_panic_hook() {
    panic::set_hook(Box::new(|info| {
        let loc = info
            .location()
            .map(|l| format!("{}:{}", l.file(), l.line()))
            .unwrap_or_else(|| "?".to_string());
        let msg = if let Some(s) = info.payload().downcast_ref::<&str>() {
            s.to_string()
        } else if let Some(s) = info.payload().downcast_ref::<String>() {
            s.clone()
        } else {
            "non-string panic".to_string()
        };
        LAST_PANIC.with(|p| *p.borrow_mut() = Some(format!("{loc}: {msg}")));
    }));
}

/// Run `f`, turning a panic into Err(description).
pub fn guarded<R>(f: impl FnOnce() -> R) -> Result<R, String> {
    match panic::catch_unwind(AssertUnwindSafe(f)) {
        Ok(r) => Ok(r),
        Err(_) => Err(LAST_PANIC
            .with(|p| p.borrow_mut().take())
            .unwrap_or_else(|| "panic".to_string())),
    }
}

/// xorshift64* — deterministic, seedable from VERIF_SEED.
#[derive(Clone)]
pub struct Rng(pub u64);
impl Rng {
    pub fn new(seed: u64) -> Self {
        Rng(seed.wrapping_mul(0x9E3779B97F4A7C15) | 1)
    }
    pub fn next(&mut self) -> u64 {
        let mut x = self.0;
        x ^= x >> 12;
        x ^= x << 25;
        x ^= x >> 27;
        self.0 = x;
        x.wrapping_mul(0x2545F4914F6CDD1D)
    }
    pub fn below(&mut self, n: usize) -> usize {
        if n == 0 { 0 } else { (self.next() % n as u64) as usize }
    }
}

pub fn seed_from_env() -> u64 {
    std::env::var("VERIF_SEED")
        .ok()
        .and_then(|s| s.parse::<u64>().ok())
        .unwrap_or(1)
}

/// Canonical line endings: CRLF -> LF.
pub fn lf(s: &str) -> String {
    s.replace("\r\n", "\n")
}

pub fn crlf(s: &str) -> String {
    lf(s).replace('\n', "\r\n")
}

/// Parse the value of `--name` from args.
pub fn arg<'a>(args: &'a [String], name: &str) -> Option<&'a str> {
    args.iter()
        .position(|a| a == name)
        .and_then(|i| args.get(i + 1))
        .map(|s| s.as_str())
}

pub fn flag(args: &[String], name: &str) -> bool {
    args.iter().any(|a| a == name)
}

/// root of the verification tree (data/contents.json lives below it); VERIF_ROOT overrides /verif so that a
/// snapshot copy uses its own files
pub fn verif_root() -> String {
    std::env::var("VERIF_ROOT").unwrap_or_else(|_| "/verif".to_string())
}

pub fn contents_default() -> String {
    format!("{}/data/contents.json", verif_root())
}

/// root of the repository under test (VERIF_REPO overrides /repo)
pub fn repo_root() -> String {
    std::env::var("VERIF_REPO").unwrap_or_else(|_| "/repo".to_string())
}
