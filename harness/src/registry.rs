//! Tag -> field parser registry and message-type dispatch.

use serde_json::Value;
use swift_mt_message::fields::*;
use swift_mt_message::traits::SwiftField;

/// Result of parsing one content stand-alone with the struct-level parser of `tag`.
pub struct FieldOutcome {
    /// `to_swift_string()` of the parsed value (includes the `:TAG:` prefix)
    pub ser: String,
    pub json: Value,
    /// `{:?}` of the parsed value (exposes typed components such as NaiveDate)
    pub debug: String,
    /// the value rebuilt from its own JSON: Ok((to_swift_string, {:?}, to_value)) or the serde error
    pub via_json: Result<(String, String, Value), String>,
}

fn run<T: SwiftField>(content: &str) -> Result<FieldOutcome, String> {
    match T::parse(content) {
        Ok(v) => {
            let json = serde_json::to_value(&v).unwrap_or(Value::Null);
            let via_json = match serde_json::from_value::<T>(json.clone()) {
                Ok(v2) => Ok((v2.to_swift_string(), format!("{:?}", v2), serde_json::to_value(&v2).unwrap_or(Value::Null))),
                Err(e) => Err(e.to_string()),
            };
            Ok(FieldOutcome { ser: v.to_swift_string(), debug: format!("{:?}", v), json, via_json })
        }
        Err(e) => Err(e.to_string()),
    }
}

macro_rules! field_table {
    ($( $tag:literal => $ty:ty ),* $(,)?) => {
        pub const FIELD_TAGS: &[&str] = &[$($tag),*];
        /// Parse `content` with the struct-level parser registered for `tag`.
        /// Returns None for an unknown tag. Panics propagate (callers use catch_unwind).
        pub fn parse_by_tag(tag: &str, content: &str) -> Option<Result<FieldOutcome, String>> {
            match tag {
                $( $tag => Some(run::<$ty>(content)), )*
                _ => None,
            }
        }
        pub fn type_name_by_tag(tag: &str) -> Option<&'static str> {
            match tag {
                $( $tag => Some(stringify!($ty)), )*
                _ => None,
            }
        }
    };
}

field_table! {
    "11" => Field11, "11R" => Field11R, "11S" => Field11S, "12" => Field12,
    "13C" => Field13C, "13D" => Field13D, "19" => Field19, "20" => Field20,
    "21" => Field21NoOption, "21C" => Field21C, "21D" => Field21D, "21E" => Field21E,
    "21F" => Field21F, "21R" => Field21R, "23" => Field23, "23B" => Field23B,
    "23E" => Field23E, "25" => Field25NoOption, "25A" => Field25A, "25P" => Field25P,
    "26T" => Field26T, "28" => Field28, "28C" => Field28C, "28D" => Field28D,
    "30" => Field30, "32A" => Field32A, "32B" => Field32B, "32C" => Field32C,
    "32D" => Field32D, "33B" => Field33B, "34F" => Field34F, "36" => Field36,
    "37H" => Field37H, "50" => Field50NoOption, "50A" => Field50A, "50C" => Field50C,
    "50F" => Field50F, "50G" => Field50G, "50H" => Field50H, "50K" => Field50K,
    "50L" => Field50L, "51A" => Field51A, "52A" => Field52A, "52B" => Field52B,
    "52C" => Field52C, "52D" => Field52D, "53A" => Field53A, "53B" => Field53B,
    "53D" => Field53D, "54A" => Field54A, "54B" => Field54B, "54D" => Field54D,
    "55A" => Field55A, "55B" => Field55B, "55D" => Field55D, "56A" => Field56A,
    "56C" => Field56C, "56D" => Field56D, "57A" => Field57A, "57B" => Field57B,
    "57C" => Field57C, "57D" => Field57D, "58A" => Field58A, "58D" => Field58D,
    "59" => Field59NoOption, "59A" => Field59A, "59F" => Field59F, "60F" => Field60F,
    "60M" => Field60M, "61" => Field61, "62F" => Field62F, "62M" => Field62M,
    "64" => Field64, "65" => Field65, "70" => Field70, "71A" => Field71A,
    "71B" => Field71B, "71F" => Field71F, "71G" => Field71G, "72" => Field72,
    "75" => Field75, "76" => Field76, "77A" => Field77A, "77B" => Field77B,
    "77T" => Field77T, "79" => Field79, "86" => Field86, "90C" => Field90C,
    "90D" => Field90D,
}

pub const MESSAGE_TYPES: &[&str] = &[
    "101", "103", "104", "107", "110", "111", "112", "190", "191", "192", "196", "199", "200",
    "202", "204", "205", "210", "290", "291", "292", "296", "299", "900", "910", "920", "935",
    "940", "941", "942", "950",
];

/// Run `$body` with `$T` bound to the message struct of type code `$mt`; `$else` if unknown.
#[macro_export]
macro_rules! with_mt {
    ($mt:expr, $T:ident => $body:expr, else $else:expr) => {{
        use swift_mt_message::messages::*;
        match $mt {
            "101" => { type $T = MT101; $body }
            "103" => { type $T = MT103; $body }
            "104" => { type $T = MT104; $body }
            "107" => { type $T = MT107; $body }
            "110" => { type $T = MT110; $body }
            "111" => { type $T = MT111; $body }
            "112" => { type $T = MT112; $body }
            "190" => { type $T = MT190; $body }
            "191" => { type $T = MT191; $body }
            "192" => { type $T = MT192; $body }
            "196" => { type $T = MT196; $body }
            "199" => { type $T = MT199; $body }
            "200" => { type $T = MT200; $body }
            "202" => { type $T = MT202; $body }
            "204" => { type $T = MT204; $body }
            "205" => { type $T = MT205; $body }
            "210" => { type $T = MT210; $body }
            "290" => { type $T = MT290; $body }
            "291" => { type $T = MT291; $body }
            "292" => { type $T = MT292; $body }
            "296" => { type $T = MT296; $body }
            "299" => { type $T = MT299; $body }
            "900" => { type $T = MT900; $body }
            "910" => { type $T = MT910; $body }
            "920" => { type $T = MT920; $body }
            "935" => { type $T = MT935; $body }
            "940" => { type $T = MT940; $body }
            "941" => { type $T = MT941; $body }
            "942" => { type $T = MT942; $body }
            "950" => { type $T = MT950; $body }
            _ => $else,
        }
    }};
}

// ---------------------------------------------------------------------------------------------
// multi-option families (enum field types)
// ---------------------------------------------------------------------------------------------
pub struct VariantOutcome {
    pub ser: String,
    pub json: Value,
    pub variant_tag: Option<String>,
}

fn run_variant<T: SwiftField>(content: &str, variant: Option<&str>, base: &str, heuristic: bool) -> Result<VariantOutcome, String> {
    let r = if heuristic { T::parse(content) } else { T::parse_with_variant(content, variant, Some(base)) };
    match r {
        Ok(v) => Ok(VariantOutcome {
            ser: v.to_swift_string(),
            json: serde_json::to_value(&v).unwrap_or(Value::Null),
            variant_tag: v.get_variant_tag().map(|s| s.to_string()),
        }),
        Err(e) => Err(e.to_string()),
    }
}

macro_rules! family_table {
    ($( $name:literal => ($ty:ty, $base:literal, [$($l:literal),*]) ),* $(,)?) => {
        /// (family name, base tag, option letters; "" = no letter)
        pub const FAMILIES: &[(&str, &str, &[&str])] = &[$(($name, $base, &[$($l),*])),*];
        /// parse `content` as family `name`: with the given option letter, or heuristically
        pub fn parse_family(name: &str, content: &str, variant: Option<&str>, heuristic: bool) -> Option<Result<VariantOutcome, String>> {
            match name {
                $( $name => Some(run_variant::<$ty>(content, variant, $base, heuristic)), )*
                _ => None,
            }
        }
    };
}

family_table! {
    "Field50InstructingParty" => (Field50InstructingParty, "50", ["C", "L"]),
    "Field50OrderingCustomerFGH" => (Field50OrderingCustomerFGH, "50", ["F", "G", "H"]),
    "Field50OrderingCustomerAFK" => (Field50OrderingCustomerAFK, "50", ["A", "F", "K"]),
    "Field50OrderingCustomerNCF" => (Field50OrderingCustomerNCF, "50", ["", "C", "F"]),
    "Field50Creditor" => (Field50Creditor, "50", ["A", "K"]),
    "Field52AccountServicingInstitution" => (Field52AccountServicingInstitution, "52", ["A", "C"]),
    "Field52OrderingInstitution" => (Field52OrderingInstitution, "52", ["A", "D"]),
    "Field52CreditorBank" => (Field52CreditorBank, "52", ["A", "C", "D"]),
    "Field52DrawerBank" => (Field52DrawerBank, "52", ["A", "B", "D"]),
    "Field53SenderCorrespondent" => (Field53SenderCorrespondent, "53", ["A", "B", "D"]),
    "Field54ReceiverCorrespondent" => (Field54ReceiverCorrespondent, "54", ["A", "B", "D"]),
    "Field55ThirdReimbursementInstitution" => (Field55ThirdReimbursementInstitution, "55", ["A", "B", "D"]),
    "Field56Intermediary" => (Field56Intermediary, "56", ["A", "C", "D"]),
    "Field56IntermediaryAD" => (Field56IntermediaryAD, "56", ["A", "D"]),
    "Field57" => (Field57, "57", ["A", "B", "C", "D"]),
    "Field57DebtInstitution" => (Field57DebtInstitution, "57", ["A", "B", "D"]),
    "Field58" => (Field58, "58", ["A", "D"]),
    "Field59" => (Field59, "59", ["", "A", "F"]),
    "Field59Debtor" => (Field59Debtor, "59", ["", "A"]),
    "Field32" => (Field32, "32", ["A", "B", "C", "D"]),
    "Field32AB" => (Field32AB, "32", ["A", "B"]),
    "Field32AmountCD" => (Field32AmountCD, "32", ["C", "D"]),
    "Field60" => (Field60, "60", ["F", "M"]),
    "Field62" => (Field62, "62", ["F", "M"]),
}
