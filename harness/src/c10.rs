//! C10: envelope integrity — blocks 1,2,3,5 and their tags survive parse -> serialise,
//! block extraction is structural, malformed headers are rejected.

use crate::tok;
use crate::util::*;
use serde_json::{Value, json};
use std::collections::BTreeMap;
use std::io::BufRead;
use swift_mt_message::messages::MT103;
use swift_mt_message::parser::SwiftParser;

// every component carries a different value, so that swapped components are visible
pub const B1: &str = "F01BANKBEBBAXXX1234567890";
pub const B3_ORDER: &[(&str, &str)] = &[
    ("103", "EBA"), ("113", "NNNN"), ("108", "MUR1234567890123"), ("119", "STP"),
    ("423", "24071812345698"), ("106", "240717BANKBEBBAXXX1234567890"), ("424", "RELREF123"),
    ("111", "001"), ("121", "8a562c65-9a7e-4d8b-8f3a-2b1c5d6e7f80"), ("115", "ADDRESSEE INFO"),
    // (the free-text part of 165 / 433 / 434 is of the x set: a slash inside it is part of the value)
    ("165", "ABC/RELEASE/INFO 1"), ("433", "AOK/NO/HIT 2025/42"), ("434", "FPO/CONTROL/INFO 7"),
];
pub const B5_ORDER: &[(&str, &str)] = &[
    ("CHK", "123456789ABC"), ("TNG", ""), ("PDE", "1348120811BANKFRPPAXXX2222123456"), ("DLM", ""),
    ("MRF", "1806271539180626BANKFRPPAXXX2222123456"), ("PDM", "1213120811BANKFRPPAXXX2222123456"),
    ("SYS", "1454120811BANKFRPPAXXX2222123456"), ("MAC", "00000000"),
];

pub fn b2_text(shape: &str) -> String {
    match shape {
        "I_P" => "I103BANKDEFFXXXXN".into(),
        "I_PM" => "I103BANKDEFFXXXXN2".into(),
        "I_PMOOO" => "I103BANKDEFFXXXXN2015".into(),
        "O_P" => "O1031158240718BANKBEBBAXXX43210987652407191301N".into(),
        _ => "O1031158240718BANKBEBBAXXX43210987652407191301".into(),
    }
}

pub fn tagtext(tag: &str, val: &str) -> String {
    if val.is_empty() { format!("{{{}}}", tag) } else { format!("{{{}:{}}}", tag, val) }
}

struct Built {
    text: String,
    b1: Option<String>,
    b2: Option<String>,
    b3: Vec<(String, String)>,
    b5: Vec<(String, String)>,
    body: String,
}

fn build(case: &Value) -> Built {
    let fault = case["fault"].as_str().unwrap_or("none");
    let set = |k: &str| -> Vec<String> { case[k].as_array().map(|a| a.iter().filter_map(|x| x.as_str().map(|s| s.to_string())).collect()).unwrap_or_default() };
    let b3tags = set("b3");
    let b5tags = set("b5");
    let mut b1 = Some(B1.to_string());
    let mut b2 = Some(b2_text(case["b2"].as_str().unwrap_or("I_P")));
    match fault {
        "b1_short" => b1 = Some(B1[..24].to_string()),
        "b1_long" => b1 = Some(format!("{}0", B1)),
        "b1_letter_in_session" => b1 = Some("F01BANKBEBBAXXX12A4567890".into()),
        "b1_missing" => b1 = None,
        "b2_bad_direction" => b2 = b2.map(|s| format!("X{}", &s[1..])),
        "b2_I_short" => b2 = Some("I103BANKDEFFXXXX".into()),
        "b2_I_partial_obsolescence" => b2 = Some("I103BANKDEFFXXXXN202".into()),
        "b2_I_trailing" => b2 = Some("I103BANKDEFFXXXXN20209".into()),
        "b2_letter_in_type" => b2 = b2.map(|s| format!("{}1A3{}", &s[..1], &s[4..])),
        "b2_O_short" => b2 = Some("O1031158240718BANKBEBBAXXX4321098765240719130".into()),
        "b2_O_trailing" => b2 = Some("O1031158240718BANKBEBBAXXX43210987652407191301N9".into()),
        "b2_missing" => b2 = None,
        _ => {}
    }
    if case["addr"] == "branch" {
        // LT address = BIC8 + terminal code + branch code
        let sub = |s: String| s.replace("BANKBEBBAXXX", "BANKBEBBA123").replace("BANKDEFFXXXX", "BANKDEFFX456");
        b1 = b1.map(sub);
        b2 = b2.map(sub);
    }
    let mut b3: Vec<(String, String)> = B3_ORDER.iter().filter(|(t, _)| b3tags.iter().any(|x| x == t)).map(|(t, v)| (t.to_string(), v.to_string())).collect();
    match case["tagval"].as_str().unwrap_or("long") {
        "code" => for e in b3.iter_mut() {
            match e.0.as_str() { "165" => e.1 = "ABC".into(), "433" => e.1 = "AOK".into(), "434" => e.1 = "FPO".into(), "423" => e.1 = "240718123456".into(), _ => {} }
        },
        "short" => for e in b3.iter_mut() {
            match e.0.as_str() { "165" => e.1 = "ABC/X".into(), "433" => e.1 = "AOK/X".into(), "434" => e.1 = "FPO/X".into(), "423" => e.1 = "240718123456".into(), _ => {} }
        },
        _ => {}
    }
    for e in b3.iter_mut() {
        match (fault, e.0.as_str()) {
            ("b3_433_no_slash", "433") => e.1 = "AOKXY".into(),
            ("b3_165_short", "165") => e.1 = "AB".into(),
            ("b3_423_short", "423") => e.1 = "2407181234".into(),
            _ => {}
        }
    }
    if fault == "mur_with_colon_digit" {
        for e in b3.iter_mut() {
            if e.0 == "108" { e.1 = "REF4:5:6".into(); }
        }
    }
    let b5: Vec<(String, String)> = B5_ORDER.iter().filter(|(t, _)| b5tags.iter().any(|x| x == t)).map(|(t, v)| (t.to_string(), v.to_string())).collect();
    let f70 = match fault {
        "val_dash_brace_midline" => ":70:PAY-}MENT\r\n",
        "val_dashline_in_narrative" => ":70:LINE ONE\r\n-BULLET POINT\r\n",
        _ => ":70:PLAIN NARRATIVE\r\n",
    };
    let body = format!("\r\n:20:TXN20240719001\r\n:23B:CRED\r\n:32A:240719USD1250,50\r\n:50K:/12345678\r\nJOHN DOE\r\n:59:/98765432\r\nJANE SMITH\r\n{}:71A:OUR\r\n", f70);
    let mut text = String::new();
    if let Some(b) = &b1 { text.push_str(&format!("{{1:{}}}", b)); }
    if let Some(b) = &b2 { text.push_str(&format!("{{2:{}}}", b)); }
    if !b3.is_empty() {
        text.push_str("{3:");
        for (t, v) in &b3 { text.push_str(&tagtext(t, v)); }
        if fault != "b3_unclosed" { text.push('}'); }
    }
    text.push_str("{4:");
    text.push_str(&body);
    if fault != "b4_unterminated" { text.push_str("-}"); }
    if !b5.is_empty() {
        text.push_str("{5:");
        for (t, v) in &b5 { text.push_str(&tagtext(t, v)); }
        text.push('}');
    }
    Built { text, b1, b2, b3, b5, body }
}

/// reference structural extraction: top-level blocks by brace depth; the text block ends at "\n-}"
fn blocks_of(text: &str) -> BTreeMap<String, String> {
    let mut out = BTreeMap::new();
    let b = text.as_bytes();
    let mut i = 0;
    while i < b.len() {
        if b[i] == b'{' && i + 2 < b.len() && b[i + 2] == b':' {
            let id = (b[i + 1] as char).to_string();
            let start = i + 3;
            if id == "4" {
                if let Some(e) = text[start..].find("\n-}") {
                    out.insert(id, text[start..start + e + 1].to_string());
                    i = start + e + 3;
                    continue;
                }
                break;
            }
            let mut depth = 1;
            let mut j = start;
            while j < b.len() && depth > 0 {
                if b[j] == b'{' { depth += 1; }
                if b[j] == b'}' { depth -= 1; }
                j += 1;
            }
            if depth == 0 {
                out.insert(id, text[start..j - 1].to_string());
                i = j;
                continue;
            }
            break;
        }
        i += 1;
    }
    out
}

pub fn run(args: &[String]) -> i32 {
    let cases = arg(args, "--cases").expect("--cases");
    let out_path = arg(args, "--out").expect("--out");
    let f = std::io::BufReader::new(std::fs::File::open(cases).expect("cases"));
    let mut evaluated = 0u64;
    let mut nontrivial = 0u64;
    let mut violations: Vec<Value> = Vec::new();
    let mut c02: Vec<Value> = Vec::new();
    let mut c08: Vec<Value> = Vec::new();
    let mut c08_evaluated = 0u64;
    let mut c02_evaluated = 0u64;
    let mut samples: Vec<Value> = Vec::new();
    let mut notes: BTreeMap<String, u64> = BTreeMap::new();
    for line in f.lines().map_while(|l| l.ok()) {
        let case: Value = match serde_json::from_str(&line) { Ok(v) => v, Err(_) => continue };
        let built = build(&case);
        let fault = case["fault"].as_str().unwrap_or("none").to_string();
        let expect = case["expect"].as_str().unwrap_or("accept");
        evaluated += 1;
        if fault != "none" || !built.b3.is_empty() || !built.b5.is_empty() || case["b2"] != "I_P" {
            nontrivial += 1;
        }
        let nviol = std::cell::Cell::new(0usize);
        let mut push = |sig: String, detail: Value| {
            nviol.set(nviol.get() + 1);
            violations.push(json!({"sig": sig, "replay": {"kind": "envelope", "case": case, "text": built.text, "detail": detail}}));
        };
        let r = guarded(|| SwiftParser::parse::<MT103>(&built.text));
        let m = match r {
            Err(p) => { push(format!("C10|panic|{}", fault), json!({"panic": p})); continue; }
            Ok(Err(e)) => {
                if expect == "accept" && fault != "val_dash_brace_midline" {
                    push(format!("C10|well-formed-rejected|b2={}|fault={}", case["b2"].as_str().unwrap_or(""), fault), json!({"err": e.to_string()}));
                }
                continue;
            }
            Ok(Ok(m)) => m,
        };
        if expect == "reject" {
            push(format!("C10|malformed-accepted|{}", fault), json!({}));
            continue;
        }
        let ser = match guarded(|| m.to_mt_message()) { Ok(s) => s, Err(p) => { push(format!("C10|panic-on-serialise|{}", fault), json!({"panic": p})); continue; } };
        // the error-collecting twin of the typed API takes the same text as each block
        {
            use swift_mt_message::errors::ParseResult;
            let twin = guarded(|| SwiftParser::new().parse_with_errors::<MT103>(&built.text));
            let twin_ser = match twin {
                Ok(Ok(ParseResult::Success(t))) | Ok(Ok(ParseResult::PartialSuccess(t, _))) => guarded(|| t.to_mt_message()).ok(),
                _ => None,
            };
            if twin_ser.as_ref() != Some(&ser) {
                push(format!("C10|parse_with_errors|differs-from-parse|b3={}|b5={}", !built.b3.is_empty(), !built.b5.is_empty()), json!({"parse": ser, "parse_with_errors": twin_ser}));
            }
        }
        // the parsed headers expose their components as written (a swap made consistently in parser and serialiser
        // survives every round trip; it shows only here)
        if fault == "none" {
            let hj = serde_json::to_value(&m).unwrap_or(Value::Null);
            let xxx = case["addr"] != "branch";
            let mut want: Vec<(String, Value)> = vec![
                ("basic_header.application_id".into(), json!("F")), ("basic_header.service_id".into(), json!("01")),
                ("basic_header.logical_terminal".into(), json!(if xxx { "BANKBEBBAXXX" } else { "BANKBEBBA123" })),
                ("basic_header.session_number".into(), json!("1234")), ("basic_header.sequence_number".into(), json!("567890")),
                ("application_header.message_type".into(), json!("103")),
            ];
            if xxx { want.push(("basic_header.sender_bic".into(), json!("BANKBEBB"))); }
            let shape = case["b2"].as_str().unwrap_or("");
            if shape.starts_with('I') {
                want.push(("application_header.direction".into(), json!("I")));
                want.push(("application_header.destination_address".into(), json!(if xxx { "BANKDEFFXXXX" } else { "BANKDEFFX456" })));
                if xxx { want.push(("application_header.receiver_bic".into(), json!("BANKDEFF"))); }
                want.push(("application_header.priority".into(), json!("N")));
                want.push(("application_header.delivery_monitoring".into(), if shape == "I_P" { Value::Null } else { json!("2") }));
                want.push(("application_header.obsolescence_period".into(), if shape == "I_PMOOO" { json!("015") } else { Value::Null }));
            } else {
                want.push(("application_header.direction".into(), json!("O")));
                want.push(("application_header.input_time".into(), json!("1158")));
                want.push(("application_header.mir.date".into(), json!("240718")));
                want.push(("application_header.mir.session_number".into(), json!("4321")));
                want.push(("application_header.mir.sequence_number".into(), json!("098765")));
                want.push(("application_header.output_date".into(), json!("240719")));
                want.push(("application_header.output_time".into(), json!("1301")));
                want.push(("application_header.priority".into(), if shape == "O_P" { json!("N") } else { Value::Null }));
            }
            for (path, w) in want {
                let mut cur = &hj;
                for k in path.split('.') { cur = &cur[k]; }
                if *cur != w {
                    push(format!("C10|header-component|{}|b2={}", path, shape), json!({"want": w, "got": cur}));
                }
            }
        }
        // C02 on the envelope: the serialised text is accepted again, gives an equal message, and is a fixed point
        {
            let sh = case["b2"].as_str().unwrap_or("");
            let rp = json!({"kind": "envelope", "case": case, "text": built.text, "ser": ser});
            c02_evaluated += 1;
            match guarded(|| SwiftParser::parse::<MT103>(&ser)) {
                Ok(Ok(m2)) => {
                    if serde_json::to_value(&m2).ok() != serde_json::to_value(&m).ok() {
                        c02.push(json!({"sig": format!("C02|envelope|value-changed|b2={}", sh), "replay": rp}));
                    } else if guarded(|| m2.to_mt_message()).ok().as_ref() != Some(&ser) {
                        c02.push(json!({"sig": format!("C02|envelope|not-fixed-point|b2={}", sh), "replay": rp}));
                    }
                }
                _ => c02.push(json!({"sig": format!("C02|envelope|reparse-rejected|b2={}", sh), "replay": rp})),
            }
        }
        // C08 on the envelope: JSON and back gives an equal message that serialises to the same text
        {
            let sh = format!("b2={}|addr={}", case["b2"].as_str().unwrap_or(""), case["addr"].as_str().unwrap_or("xxx"));
            let rp = json!({"kind": "envelope", "case": case, "text": built.text});
            c08_evaluated += 1;
            match guarded(|| serde_json::to_string(&m).ok().and_then(|j| serde_json::from_str::<swift_mt_message::SwiftMessage<MT103>>(&j).ok())) {
                Ok(Some(back)) => {
                    if serde_json::to_value(&back).ok() != serde_json::to_value(&m).ok() || format!("{:?}", back) != format!("{:?}", m) {
                        c08.push(json!({"sig": format!("C08|envelope|json-roundtrip-differs|{}", sh), "replay": rp}));
                    } else if guarded(|| back.to_mt_message()).ok().as_ref() != Some(&ser) {
                        c08.push(json!({"sig": format!("C08|envelope|publish-differs|{}", sh), "replay": rp}));
                    }
                }
                Ok(None) => c08.push(json!({"sig": format!("C08|envelope|json-back-failed|{}", sh), "replay": rp})),
                Err(pn) => c08.push(json!({"sig": format!("C08|envelope|panic|{}", sh), "replay": rp, "detail": {"panic": pn}})),
            }
        }
        let blocks = blocks_of(&ser);
        if let Some(b1) = &built.b1 {
            if blocks.get("1") != Some(b1) { push("C10|block1|not-reproduced".into(), json!({"ser": blocks.get("1")})); }
        }
        if let Some(b2) = &built.b2 {
            if blocks.get("2") != Some(b2) { push(format!("C10|block2|not-reproduced|{}", case["b2"].as_str().unwrap_or("")), json!({"ser": blocks.get("2"), "want": b2})); }
        }
        let s3 = blocks.get("3").cloned().unwrap_or_default();
        for (t, v) in &built.b3 {
            if !s3.contains(&tagtext(t, v)) {
                push(format!("C10|block3|tag-not-preserved|{}", t), json!({"ser_block3": s3, "want": tagtext(t, v)}));
            }
        }
        let s5 = blocks.get("5").cloned().unwrap_or_default();
        for (t, v) in &built.b5 {
            if !s5.contains(&tagtext(t, v)) {
                push(format!("C10|block5|tag-not-preserved|{}", t), json!({"ser_block5": s5, "want": tagtext(t, v)}));
            }
        }
        // block 4 depends on structure only: same fields as written
        let want = tok::tokenize(&built.body).tokens;
        let got = tok::tokenize(blocks.get("4").map(|s| s.as_str()).unwrap_or("")).tokens;
        let same = want.len() == got.len() && want.iter().zip(got.iter()).all(|(a, b)| a.tag == b.tag && lf(&a.content) == lf(&b.content));
        if !same {
            push(format!("C10|block4|fields-differ|{}", fault), json!({"want": want.iter().map(|t| t.tag.clone()).collect::<Vec<_>>(), "got": got.iter().map(|t| t.tag.clone()).collect::<Vec<_>>()}));
        }
        // second parse equal (reported only when no tag loss already explains a difference)
        if nviol.get() > 0 {
            continue;
        }
        match guarded(|| SwiftParser::parse::<MT103>(&ser)) {
            Ok(Ok(m2)) => {
                if serde_json::to_value(&m2).ok() != serde_json::to_value(&m).ok() {
                    push(format!("C10|reparse|value-differs|b2={}", case["b2"].as_str().unwrap_or("")), json!({}));
                }
            }
            _ => push(format!("C10|reparse|rejected|b2={}", case["b2"].as_str().unwrap_or("")), json!({"ser": ser})),
        }
        *notes.entry("accepted".into()).or_insert(0) += 1;
        if samples.len() < 4 && !built.b3.is_empty() && !built.b5.is_empty() {
            samples.push(json!({"case": case, "text": built.text}));
        }
    }
    std::fs::write(out_path, json!({"evaluated": evaluated, "distinct_nontrivial": nontrivial, "violations": violations, "c02_violations": c02, "c02_evaluated": c02_evaluated, "c08_violations": c08, "c08_evaluated": c08_evaluated, "samples": samples, "notes": notes}).to_string()).expect("write");
    0
}
