//! C11: dates and times — the whole 10^6 / 10^4 domains through every date/time-bearing
//! field type, in MT and JSON.

use crate::registry::parse_by_tag;
use crate::util::*;
use serde_json::{Value, json};
use std::collections::BTreeMap;
use std::io::BufRead;

fn full_year(yy: u32) -> u32 { if yy <= 49 { 2000 + yy } else { 1900 + yy } }
fn leap(y: u32) -> bool { (y % 4 == 0 && y % 100 != 0) || y % 400 == 0 }
fn days_in(y: u32, m: u32) -> u32 {
    match m { 1 | 3 | 5 | 7 | 8 | 10 | 12 => 31, 4 | 6 | 9 | 11 => 30, 2 => if leap(y) { 29 } else { 28 }, _ => 0 }
}
fn valid_date(yy: u32, mm: u32, dd: u32) -> bool { (1..=12).contains(&mm) && dd >= 1 && dd <= days_in(full_year(yy), mm) }

/// (tag, template with {D} for the six date digits)
const DATE_FIELDS: &[(&str, &str)] = &[
    ("30", "{D}"), ("32A", "{D}USD1250,50"), ("13D", "{D}1230+0100"), ("60F", "C{D}USD1234,56"),
    ("11R", "103{D}"), ("11S", "103{D}"), ("11", "103{D}"), ("32C", "{D}EUR500,25"), ("32D", "{D}USD750,50"),
    ("60M", "D{D}EUR500,00"), ("61", "{D}D1234,56NTRFREF123456"), ("62F", "C{D}USD1234,56"),
    ("62M", "D{D}EUR500,00"), ("64", "C{D}USD1234,56"), ("65", "C{D}USD1234,56"),
];
/// (tag, template with {T} for HHMM)
const TIME_FIELDS: &[(&str, &str)] = &[("13C", "/SNDTIME/{T}+0100"), ("13D", "240719{T}+0100")];
/// (tag, template with {O} for the offset HHMM)
const OFFSET_FIELDS: &[(&str, &str)] = &[("13C", "/SNDTIME/1230+{O}"), ("13C", "/SNDTIME/1230-{O}"), ("13D", "2407191230+{O}"), ("13D", "2407191230-{O}")];

fn iso_dates(s: &str) -> Vec<String> {
    let b = s.as_bytes();
    let mut out = Vec::new();
    let mut i = 0;
    while i + 10 <= b.len() {
        let w = &b[i..i + 10];
        if w[4] == b'-' && w[7] == b'-' && w.iter().enumerate().all(|(k, c)| k == 4 || k == 7 || c.is_ascii_digit())
            && (i == 0 || !b[i - 1].is_ascii_digit()) && (i + 10 == b.len() || !b[i + 10].is_ascii_digit()) {
            out.push(s[i..i + 10].to_string());
            i += 10;
        } else {
            i += 1;
        }
    }
    out
}

struct Tally {
    evaluated: u64,
    violations: BTreeMap<String, (u64, Value)>,
    panics: BTreeMap<String, u64>,
}
impl Tally {
    fn hit(&mut self, sig: String, replay: Value) {
        // a panic is neither acceptance nor rejection: it is C07's matter, noted here only
        if sig.contains("|panic|") {
            *self.panics.entry(sig).or_insert(0) += 1;
            return;
        }
        let e = self.violations.entry(sig).or_insert((0, replay));
        e.0 += 1;
    }
}

fn check_date(t: &mut Tally, tag: &str, tmpl: &str, digits: &str, valid: bool, want_iso: &str) {
    let content = tmpl.replace("{D}", digits);
    t.evaluated += 1;
    let replay = json!({"kind": "datetime", "tag": tag, "content": content});
    match guarded(|| parse_by_tag(tag, &content)) {
        Err(p) => t.hit(format!("C11|Field{}|panic|{}", tag, p.split(':').next().unwrap_or("")), replay),
        Ok(None) => {}
        Ok(Some(Err(_))) => {
            if valid {
                t.hit(format!("C11|Field{}|valid-date-rejected|{}", tag, class_of(digits)), replay);
            }
        }
        Ok(Some(Ok(o))) => {
            if !valid {
                t.hit(format!("C11|Field{}|invalid-date-accepted|{}", tag, class_of(digits)), replay);
                return;
            }
            // one meaning everywhere: the typed value carries the reference date (window 1950-2049)
            let got = iso_dates(&o.debug);
            if !got.iter().any(|d| d == want_iso) {
                t.hit(format!("C11|Field{}|different-meaning|mt|yy-class={}", tag, yy_class(digits)), replay.clone());
            }
            // digits reproduced
            if !o.ser.contains(digits) {
                t.hit(format!("C11|Field{}|digits-not-reproduced|mt", tag), replay.clone());
            }
            match &o.via_json {
                Err(_) => t.hit(format!("C11|Field{}|json-not-readable", tag), replay),
                Ok((ser2, dbg2, _)) => {
                    if !iso_dates(dbg2).iter().any(|d| d == want_iso) {
                        t.hit(format!("C11|Field{}|different-meaning|json|yy-class={}", tag, yy_class(digits)), replay.clone());
                    }
                    if ser2 != &o.ser {
                        t.hit(format!("C11|Field{}|digits-not-reproduced|json", tag), replay);
                    }
                }
            }
        }
    }
}

fn yy_class(d: &str) -> &'static str {
    match d[0..2].parse::<u32>().unwrap_or(0) { 0..=49 => "00-49", 50..=79 => "50-79", _ => "80-99" }
}

fn class_of(d: &str) -> String {
    if !d.chars().all(|c| c.is_ascii_digit()) || d.len() != 6 {
        return "non-digit".into();
    }
    let mm: u32 = d[2..4].parse().unwrap_or(0);
    let dd: u32 = d[4..6].parse().unwrap_or(0);
    if !(1..=12).contains(&mm) { "month".into() } else if dd == 0 || dd > 31 { "day".into() } else if mm == 2 { "feb".into() } else { "day-of-month".into() }
}

pub fn run(args: &[String]) -> i32 {
    let table = arg(args, "--table").expect("--table");
    let out_path = arg(args, "--out").expect("--out");
    let stride: usize = arg(args, "--stride").and_then(|s| s.parse().ok()).unwrap_or(1);
    let full_for: Vec<&str> = arg(args, "--full").unwrap_or("30,32A,13D,60F").split(',').collect();
    // trusted-base check: the Rust calendar equals the TLC table
    let f = std::io::BufReader::new(std::fs::File::open(table).expect("table"));
    let mut years = 0;
    for line in f.lines().map_while(|l| l.ok()) {
        if let Ok(v) = serde_json::from_str::<Value>(&line) {
            let yy = v["yy"].as_u64().unwrap_or(0) as u32;
            let days: u32 = (1..=12).map(|m| days_in(full_year(yy), m)).sum();
            if v["full"].as_u64() != Some(full_year(yy) as u64) || v["leap"].as_bool() != Some(leap(full_year(yy))) || v["days"].as_u64() != Some(days as u64) {
                eprintln!("calendar twin disagrees with Calendar.tla for yy={}", yy);
                return 3;
            }
            years += 1;
        }
    }
    if years != 100 {
        eprintln!("calendar table incomplete");
        return 3;
    }
    let mut t = Tally { evaluated: 0, violations: BTreeMap::new(), panics: BTreeMap::new() };
    let seed = seed_from_env() as usize;
    let mut valid_seen = 0u64;
    for (tag, tmpl) in DATE_FIELDS {
        let st = if full_for.contains(tag) { 1 } else { stride };
        let mut n = (seed * 7919) % st.max(1);
        while n < 1_000_000 {
            let digits = format!("{:06}", n);
            let (yy, mm, dd) = ((n / 10000) as u32, ((n / 100) % 100) as u32, (n % 100) as u32);
            let valid = valid_date(yy, mm, dd);
            if valid { valid_seen += 1; }
            let iso = format!("{:04}-{:02}-{:02}", full_year(yy), mm, dd);
            check_date(&mut t, tag, tmpl, &digits, valid, &iso);
            n += st;
        }
        // non-digit classes at each of the six positions
        for pos in 0..6 {
            for bad in ["+", " ", "-", "A", "\u{ff11}", "\u{0661}", "."] {
                let mut d: Vec<String> = "240719".chars().map(|c| c.to_string()).collect();
                d[pos] = bad.to_string();
                let digits = d.concat();
                check_date(&mut t, tag, tmpl, &digits, false, "");
            }
        }
    }
    for (tag, tmpl) in TIME_FIELDS {
        for n in 0..10000u32 {
            let hhmm = format!("{:04}", n);
            let valid = n / 100 <= 23 && n % 100 <= 59;
            let content = tmpl.replace("{T}", &hhmm);
            t.evaluated += 1;
            let replay = json!({"kind": "datetime", "tag": tag, "content": content});
            match guarded(|| parse_by_tag(tag, &content)) {
                Err(p) => t.hit(format!("C11|Field{}|panic|{}", tag, p.split(':').next().unwrap_or("")), replay),
                Ok(Some(Ok(o))) => {
                    if !valid { t.hit(format!("C11|Field{}|invalid-time-accepted", tag), replay); }
                    else {
                        if !o.ser.contains(&hhmm) { t.hit(format!("C11|Field{}|time-not-reproduced|mt", tag), replay.clone()); }
                        match &o.via_json { Ok((s2, _, _)) if s2 == &o.ser => {}, _ => t.hit(format!("C11|Field{}|time-not-reproduced|json", tag), replay) }
                    }
                }
                Ok(Some(Err(_))) => if valid { t.hit(format!("C11|Field{}|valid-time-rejected", tag), replay); },
                Ok(None) => {}
            }
        }
        for pos in 0..4 {
            for bad in ["+", " ", "A", "\u{ff11}"] {
                let mut d: Vec<String> = "1230".chars().map(|c| c.to_string()).collect();
                d[pos] = bad.to_string();
                let content = tmpl.replace("{T}", &d.concat());
                t.evaluated += 1;
                let replay = json!({"kind": "datetime", "tag": tag, "content": content});
                match guarded(|| parse_by_tag(tag, &content)) {
                    Err(p) => t.hit(format!("C11|Field{}|panic|{}", tag, p.split(':').next().unwrap_or("")), replay),
                    Ok(Some(Ok(_))) => t.hit(format!("C11|Field{}|non-digit-time-accepted", tag), replay),
                    _ => {}
                }
            }
        }
    }
    for (tag, tmpl) in OFFSET_FIELDS {
        for n in 0..10000u32 {
            let o = format!("{:04}", n);
            let (hh, mi) = (n / 100, n % 100);
            let content = tmpl.replace("{O}", &o);
            t.evaluated += 1;
            let replay = json!({"kind": "datetime", "tag": tag, "content": content});
            match guarded(|| parse_by_tag(tag, &content)) {
                Err(p) => t.hit(format!("C11|Field{}|panic|{}", tag, p.split(':').next().unwrap_or("")), replay),
                Ok(Some(Ok(out))) => {
                    if hh > 23 || mi > 59 { t.hit(format!("C11|Field{}|invalid-offset-accepted", tag), replay); }
                    else if !out.ser.contains(&o) { t.hit(format!("C11|Field{}|offset-not-reproduced", tag), replay); }
                }
                Ok(Some(Err(_))) => if hh <= 13 && mi <= 59 { t.hit(format!("C11|Field{}|valid-offset-rejected", tag), replay); },
                Ok(None) => {}
            }
        }
    }
    let violations: Vec<Value> = t.violations.iter().map(|(sig, (n, r))| json!({"sig": sig, "count": n, "replay": r})).collect();
    std::fs::write(out_path, json!({"evaluated": t.evaluated, "valid_dates_seen": valid_seen, "violations": violations, "panics_noted_for_C07": t.panics,
        "fields": DATE_FIELDS.iter().map(|f| f.0).collect::<Vec<_>>(),
        "samples": [{"tag": "32A", "content": "240229USD1250,50", "valid": true}, {"tag": "32A", "content": "230229USD1250,50", "valid": false}, {"tag": "13D", "content": "7901011230+0100", "valid": true}]}).to_string()).expect("write");
    0
}
