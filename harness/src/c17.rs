//! C17: reject / return / cover classification and the plugin's processing method.

use crate::plugins::run_plugin;
use crate::util::*;
use crate::with_mt;
use serde_json::{Value, json};
use std::io::BufRead;
use swift_mt_message::parser::SwiftParser;
use swift_mt_message::traits::SwiftMessageBody;

const WORD_ORDER: &[(&str, &str)] = &[
    ("/REJT/", "/REJT/AC01"),
    ("/RETN/", "/RETN/AC04"),
    ("/RJT/", "/RJT/X1"),
    ("/RET/", "/RET/X2"),
    ("REJTBARE", "/INS/REJT WITHOUT SLASHES"),
    ("/rejt/", "/rejt/lower"),
    ("/REJTX/", "/REJTX/LOOKALIKE"),
    ("/COV/", "/COV/COVER INFO"),
    ("/COVER/", "/COVER/COVER INFO"),
];

#[derive(Clone, Debug, PartialEq)]
pub struct Abs {
    pub mt: String,
    pub words: Vec<String>,
    pub mur: String,
    pub flag: String,
    /// "none", "50+59", "50", "59": which fields of the cover sequence are written
    pub covseq: String,
    /// RefCover of Classify.tla for this case
    pub ref_cover: bool,
    /// field 72 opens with a line without any code word
    pub lead: bool,
}

impl Abs {
    fn from(v: &Value) -> Abs {
        Abs {
            mt: v["mt"].as_str().unwrap_or("").to_string(),
            words: v["words"].as_array().map(|a| a.iter().filter_map(|x| x.as_str().map(|s| s.to_string())).collect()).unwrap_or_default(),
            mur: v["mur"].as_str().unwrap_or("none").to_string(),
            flag: v["flag"].as_str().unwrap_or("none").to_string(),
            covseq: v["covseq"].as_str().unwrap_or("none").to_string(),
            ref_cover: v["cover"].as_bool().unwrap_or(false),
            lead: v["lead"].as_bool().unwrap_or(false),
        }
    }
    fn supports(&self) -> bool { matches!(self.mt.as_str(), "103" | "202" | "205") }
    fn mur_has(&self, w: &str) -> bool {
        (w == "REJT" && (self.mur == "REJT" || self.mur == "XREJTY")) || (w == "RETN" && self.mur == "RETN")
    }
    fn ref_reject(&self) -> bool { self.mur_has("REJT") || (self.supports() && self.words.iter().any(|w| w == "/REJT/")) || (self.mt == "199" && self.words == ["/REJT/"]) }
    fn ref_return(&self) -> bool { self.mur_has("RETN") || (self.supports() && self.words.iter().any(|w| w == "/RETN/")) || (self.mt == "199" && self.words == ["/RETN/"]) }
    fn text(&self) -> String {
        let mut b = String::from("\r\n");
        match self.mt.as_str() {
            "103" => b.push_str(":20:TXN20240719001\r\n:23B:CRED\r\n:32A:240719USD1250,50\r\n:50K:/12345678\r\nJOHN DOE\r\n:59:/98765432\r\nJANE SMITH\r\n:71A:OUR\r\n"),
            "202" | "205" => b.push_str(":20:TXN20240719001\r\n:21:REF20240719001\r\n:32A:240719USD1250,50\r\n:58A:DEUTDEFF\r\n"),
            "199" => {
                // free format: the code word, if any, opens the narrative
                let first = WORD_ORDER.iter().find(|(w, _)| self.words.iter().any(|x| x == w)).map(|(_, l)| *l).unwrap_or("PLAIN NARRATIVE");
                b.push_str(&format!(":20:TXN20240719001\r\n:79:{}\r\nSECOND LINE /REJT/ AND /RETN/ MENTIONED\r\n", first));
                return format!("{{1:F01BANKBEBBAXXX0000000000}}{{2:I199BANKDEFFXXXXN}}{{4:{}-}}", b);
            }
            _ => b.push_str(":20:TXN20240719001\r\n:32A:240719USD1250,50\r\n:57A:CHASUS33XXX\r\n"),
        }
        let lines: Vec<&str> = WORD_ORDER.iter().filter(|(w, _)| self.words.iter().any(|x| x == w)).map(|(_, l)| *l).collect();
        let mut lines = lines;
        if self.lead && !lines.is_empty() { lines.insert(0, "/INS/CHASUS33"); }
        if !lines.is_empty() {
            b.push_str(":72:");
            b.push_str(&lines.join("\r\n"));
            b.push_str("\r\n");
        }
        if self.covseq.contains("50") {
            b.push_str(":50K:/12345678\r\nJOHN DOE\r\n");
        }
        if self.covseq.contains("59") {
            b.push_str(":59:/98765432\r\nJANE SMITH\r\n");
        }
        let mut b3 = String::new();
        if self.mur != "none" {
            b3.push_str(&format!("{{108:{}}}", self.mur));
        }
        if self.flag != "none" {
            b3.push_str(&format!("{{119:{}}}", self.flag));
        }
        let block3 = if b3.is_empty() { String::new() } else { format!("{{3:{}}}", b3) };
        format!("{{1:F01BANKBEBBAXXX0000000000}}{{2:I{}BANKDEFFXXXXN}}{}{{4:{}-}}", self.mt, block3, b)
    }
}

#[derive(Clone, Debug, PartialEq)]
pub struct Obs {
    pub reject: bool,
    pub ret: bool,
    pub cover: bool,
    pub stp: bool,
    pub method: String,
}

fn predicates<T: SwiftMessageBody + serde::de::DeserializeOwned>(text: &str) -> Result<(bool, bool, bool, bool), String> {
    match guarded(|| SwiftParser::parse::<T>(text)) {
        Err(p) => Err(format!("panic:{p}")),
        Ok(Err(e)) => Err(format!("rejected:{e}")),
        Ok(Ok(m)) => guarded(|| (m.has_reject_codes(), m.has_return_codes(), m.is_cover_message(), m.is_stp_message())).map_err(|p| format!("panic:{p}")),
    }
}

pub fn observe(a: &Abs) -> Result<Obs, String> {
    let text = a.text();
    let (mut reject, mut ret, cover, stp) = with_mt!(a.mt.as_str(), T => predicates::<T>(&text), else Err("type".into()))?;
    if a.mt == "199" {
        // MT199 carries its own predicates on the body
        let m = guarded(|| SwiftParser::parse::<swift_mt_message::messages::MT199>(&text)).map_err(|p| format!("panic:{p}"))?.map_err(|e| format!("rejected:{e}"))?;
        reject = reject || guarded(|| m.fields.is_reject_message()).map_err(|p| format!("panic:{p}"))?;
        ret = ret || guarded(|| m.fields.is_return_message()).map_err(|p| format!("panic:{p}"))?;
    }
    let r = guarded(|| run_plugin("parse_mt", json!({"mt": text}), json!({"source": "mt", "target": "out"}))).map_err(|p| format!("panic:{p}"))?;
    if !r.ok {
        return Err(format!("plugin:{}", r.err));
    }
    let method = r.metadata["out"]["method"].as_str().unwrap_or("?").to_string();
    Ok(Obs { reject, ret, cover, stp, method })
}

fn implied_method(a: &Abs, o: &Obs) -> &'static str {
    let t25 = a.mt == "202" || a.mt == "205";
    if !a.supports() { "normal" }
    else if o.reject || (t25 && a.flag == "REJT") { "reject" }
    else if o.ret || (t25 && a.flag == "RETN") { "return" }
    else if t25 && (o.cover || a.flag == "COV") { "cover" }
    else if a.mt == "103" && o.stp { "stp" }
    else { "normal" }
}

/// the list of property clauses this case violates
fn mismatches(a: &Abs, o: &Obs) -> Vec<String> {
    let mut v = Vec::new();
    if o.reject != a.ref_reject() {
        v.push(format!("reject:lib={}", o.reject));
    }
    if o.ret != a.ref_return() {
        v.push(format!("return:lib={}", o.ret));
    }
    if o.cover != a.ref_cover {
        v.push(format!("cover:lib={}", o.cover));
    }
    if o.method != implied_method(a, o) {
        v.push(format!("method:lib={}:implied={}", o.method, implied_method(a, o)));
    }
    v
}

fn ref_cover_of(a: &Abs) -> bool {
    (a.mt == "202" && a.covseq != "none") || (a.mt == "205" && a.words.iter().any(|w| w == "/COV/" || w == "/COVER/"))
}

fn smaller(a: &Abs) -> Vec<Abs> {
    let out = smaller_raw(a);
    out.into_iter().map(|mut b| { b.ref_cover = ref_cover_of(&b); b }).collect()
}

fn smaller_raw(a: &Abs) -> Vec<Abs> {
    let mut out = Vec::new();
    for i in 0..a.words.len() {
        let mut b = a.clone();
        b.words.remove(i);
        out.push(b);
    }
    if a.mur != "none" { let mut b = a.clone(); b.mur = "none".into(); out.push(b); }
    if a.flag != "none" { let mut b = a.clone(); b.flag = "none".into(); out.push(b); }
    if a.covseq != "none" { let mut b = a.clone(); b.covseq = "none".into(); out.push(b); }
    if a.lead { let mut b = a.clone(); b.lead = false; out.push(b); }
    out
}

pub fn run(args: &[String]) -> i32 {
    let cases = arg(args, "--cases").expect("--cases");
    let out_path = arg(args, "--out").expect("--out");
    let f = std::io::BufReader::new(std::fs::File::open(cases).expect("cases"));
    let mut evaluated = 0u64;
    let mut skipped = 0u64;
    let mut nontrivial = 0u64;
    let mut violations: Vec<Value> = Vec::new();
    let mut subsumed = 0u64;
    let mut samples: Vec<Value> = Vec::new();
    let mut skip_reasons: std::collections::BTreeMap<String, u64> = Default::default();
    for line in f.lines().map_while(|l| l.ok()) {
        let v: Value = match serde_json::from_str(&line) { Ok(v) => v, Err(_) => continue };
        let a = Abs::from(&v);
        // trusted-base check: the Rust twin of the reference predicates agrees with TLC
        if a.ref_reject() != v["reject"].as_bool().unwrap_or(false) || a.ref_return() != v["return"].as_bool().unwrap_or(false) || ref_cover_of(&a) != a.ref_cover {
            eprintln!("reference twin disagrees with Classify.tla on {}", v);
            return 3;
        }
        let o = match observe(&a) {
            Ok(o) => o,
            Err(e) => {
                skipped += 1;
                *skip_reasons.entry(e.chars().take(60).collect()).or_insert(0) += 1;
                continue;
            }
        };
        evaluated += 1;
        if !a.words.is_empty() || a.mur != "none" || a.flag != "none" || a.covseq != "none" {
            nontrivial += 1;
        }
        for m in mismatches(&a, &o) {
            // minimal cases only: no smaller case shows the same mismatch
            let minimal = !smaller(&a).iter().any(|b| observe(b).map(|ob| mismatches(b, &ob).contains(&m)).unwrap_or(false));
            if minimal {
                let sig = format!("C17|MT{}|{}|words={}{}|mur={}|flag={}|cov={}", a.mt, m, a.words.join("+"), if a.lead { "|after-a-neutral-line" } else { "" }, a.mur, a.flag, a.covseq);
                violations.push(json!({"sig": sig, "replay": {"kind": "classify", "case": v, "text": a.text(), "observed": format!("{:?}", o)}}));
            } else {
                subsumed += 1;
            }
        }
        if samples.len() < 4 && !a.words.is_empty() {
            samples.push(json!({"case": v, "text": a.text(), "observed": format!("{:?}", o)}));
        }
    }
    std::fs::write(out_path, json!({"evaluated": evaluated, "skipped": skipped, "skip_reasons": skip_reasons, "distinct_nontrivial": nontrivial,
        "violations": violations, "subsumed_non_minimal": subsumed, "samples": samples}).to_string()).expect("write");
    0
}
