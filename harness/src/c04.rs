//! C04: network validation reports exactly the documented rule violations. Cases come from
//! Rules.tla: (type, abstract message as "TAG" / "TAG=knob" tokens, expected set of codes).

use crate::msgcheck::{Contents, block4_text, full_message};
use crate::session;
use crate::util::*;
use serde_json::{Value, json};
use std::collections::{BTreeMap, BTreeSet};
use std::io::{BufRead, Write};

/// content for a token: the knob selects semantic values, everything else is typical
fn synth(contents: &Contents, tok: &str, seq: usize) -> Option<(String, String)> {
    let (tag, knob) = match tok.split_once('=') { Some((t, k)) => (t, Some(k)), None => (tok, None) };
    let typical = |t: &str| contents.valid.get(t).and_then(|v| v.first().cloned());
    // "100" -> "100,00"; "100.01" -> "100,01" (the model writes whole units, or units and cents)
    let units = |a: &str| -> String { if a.contains('.') { a.replace('.', ",") } else { format!("{},00", a) } };
    let amt = |k: &str| -> (String, String) {
        let mut it = k.split(':');
        let cur = it.next().unwrap_or("USD").to_string();
        let a = it.next().unwrap_or("100");
        (cur, units(a))
    };
    let content = match (tag, knob) {
        (_, None) => match tag {
            "20" => format!("REF{:013}", seq),
            "21" => format!("REL{:013}", seq),
            "23" => "USDCALL".to_string(),       // MT935 further identification: currency + function
            _ => typical(tag)?,
        },
        ("23B", Some(k)) | ("71A", Some(k)) | ("12", Some(k)) => k.to_string(),
        ("23E", Some(k)) => k.to_string(),
        ("32A", Some(k)) | ("32C", Some(k)) | ("32D", Some(k)) => { let (c, a) = amt(k); format!("240719{}{}", c, a) }
        ("33B", Some(k)) | ("32B", Some(k)) | ("71F", Some(k)) | ("71G", Some(k)) => { let (c, a) = amt(k); format!("{}{}", c, a) }
        ("19", Some(k)) => units(k),
        ("34F", Some(k)) => { let p: Vec<&str> = k.split(':').collect(); format!("{}{}{},00", p[0], p.get(1).unwrap_or(&""), p.get(2).unwrap_or(&"10")) }
        ("60F", Some(k)) | ("62F", Some(k)) | ("64", Some(k)) | ("65", Some(k)) | ("60M", Some(k)) | ("62M", Some(k)) => {
            let p: Vec<&str> = k.split(':').collect(); format!("{}231225{}1234,56", p[0], p.get(1).unwrap_or(&"USD"))
        }
        ("90C", Some(k)) | ("90D", Some(k)) => format!("5{}12345,67", k),
        ("72", Some(k)) => match k {
            "REJT" => "/REJT/AC01".to_string(),
            "RETN" => "/RETN/AC01".to_string(),
            "lower" => "/rejt/ac01".to_string(),
            "open" => "/REJT".to_string(),
            "second" => "/ACC/INFORMATION\n/RETN/AC01".to_string(),
            "inline" => "/ACC/SEE /REJT/ INLINE".to_string(),
            _ => "/ACC/PLAIN INFORMATION".to_string(),
        },
        ("59", Some("acct")) => "/98765432\nJANE SMITH\n789 MAIN STREET".to_string(),
        ("59", Some(_)) => "JANE SMITH\n789 MAIN STREET".to_string(),
        ("37H", Some(k)) => { let p: Vec<&str> = k.split(':').collect(); format!("{}{}{}", p[0], p.get(1).unwrap_or(&""), if p.get(2) == Some(&"0") { "0,0000" } else { "2,5000" }) }
        (_, Some(_)) => typical(tag)?,
    };
    Some((tag.to_string(), content))
}

pub fn run(args: &[String]) -> i32 {
    let cases = arg(args, "--cases").expect("--cases");
    let out_path = arg(args, "--out").expect("--out");
    let texts_path = arg(args, "--texts");
    let (contents, _) = Contents::load(&arg(args, "--contents").map(|s| s.to_string()).unwrap_or_else(crate::util::contents_default));
    let f = std::io::BufReader::new(std::fs::File::open(cases).expect("cases"));
    let mut texts = texts_path.map(|p| std::io::BufWriter::new(std::fs::File::create(p).expect("texts")));
    let mut evaluated = 0u64;
    let mut rejected: BTreeMap<String, u64> = BTreeMap::new();
    let mut violating = 0u64;
    let mut violations: BTreeMap<String, (u64, Value)> = BTreeMap::new();
    let mut per_type: BTreeMap<String, u64> = BTreeMap::new();
    let mut codes_seen: BTreeSet<String> = BTreeSet::new();
    let mut samples: Vec<Value> = Vec::new();
    for line in f.lines().map_while(|l| l.ok()) {
        let c: Value = match serde_json::from_str(&line) { Ok(v) => v, Err(_) => continue };
        let mt = c["mt"].as_str().unwrap_or("").to_string();
        let toks: Vec<String> = c["toks"].as_array().map(|a| a.iter().filter_map(|x| x.as_str().map(|s| s.to_string())).collect()).unwrap_or_default();
        let want: BTreeSet<String> = c["exp"].as_array().map(|a| a.iter().filter_map(|x| x.as_str().map(|s| s.to_string())).collect()).unwrap_or_default();
        let mut fields = Vec::new();
        let mut ok = true;
        for (i, t) in toks.iter().enumerate() {
            match synth(&contents, t, i) { Some(f) => fields.push(f), None => { ok = false; break; } }
        }
        if !ok { *rejected.entry(format!("MT{}:unconcretisable", mt)).or_insert(0) += 1; continue; }
        let text = full_message(&mt, &block4_text(&fields));
        if let Some(w) = texts.as_mut() {
            let _ = writeln!(w, "{}", json!({"mt": mt, "text": text}));
        }
        let info = match session::typed(&mt, &text) {
            Ok(i) => i,
            Err(e) => {
                // messages the parser refuses cannot reach validation: counted, reported in evidence;
                // a panic on the way (parsing or validating) is no verdict at all
                let key = format!("MT{}:{}", mt, e.chars().take(70).collect::<String>());
                *rejected.entry(key).or_insert(0) += 1;
                if e.starts_with("panic:") {
                    let replay = json!({"kind": "rules", "mt": mt, "facts": c["facts"], "text": text, "expected": want, "panic": e});
                    let en = violations.entry(format!("C04|MT{}|no-verdict:panic", mt)).or_insert((0, replay));
                    en.0 += 1;
                }
                continue;
            }
        };
        evaluated += 1;
        *per_type.entry(mt.clone()).or_insert(0) += 1;
        if !want.is_empty() { violating += 1; }
        let got: BTreeSet<String> = info.full.iter().map(|e| e.0.clone()).collect();
        for g in &got { codes_seen.insert(g.clone()); }
        let replay = json!({"kind": "rules", "mt": mt, "facts": c["facts"], "text": text, "expected": want, "reported": got});
        for m in want.difference(&got) {
            let e = violations.entry(format!("C04|MT{}|missing:{}", mt, m)).or_insert((0, replay.clone()));
            e.0 += 1;
        }
        for x in got.difference(&want) {
            let e = violations.entry(format!("C04|MT{}|unexpected:{}", mt, x)).or_insert((0, replay.clone()));
            e.0 += 1;
        }
        if samples.len() < 4 && want.len() >= 2 {
            samples.push(json!({"mt": mt, "facts": c["facts"], "expected": want, "reported": got, "text": text}));
        }
    }
    if let Some(w) = texts.as_mut() { let _ = w.flush(); }
    let violations: Vec<Value> = violations.iter().map(|(sig, (n, r))| json!({"sig": sig, "count": n, "replay": r})).collect();
    std::fs::write(out_path, json!({"evaluated": evaluated, "rule_violating_messages": violating, "rejected_by_parser": rejected,
        "per_type": per_type, "codes_reported": codes_seen, "violations": violations, "samples": samples}).to_string()).expect("write");
    0
}
