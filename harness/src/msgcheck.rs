//! Message-level replay of TLC-generated behaviours (spec -> impl) for C01 C02 C03 C09,
//! and recording of MessageParser traces (impl -> spec) for the same executions.

use crate::tok::{self, Token};
use crate::util::*;
use crate::with_mt;
use serde_json::{Value, json};
use std::collections::{BTreeMap, BTreeSet};
use std::io::{BufRead, Write};
use swift_mt_message::errors::ParseError;
use swift_mt_message::parser::SwiftParser;
use swift_mt_message::traits::SwiftMessageBody;

pub struct Contents {
    pub valid: BTreeMap<String, Vec<String>>,
    pub invalid: BTreeMap<String, Vec<String>>,
    /// boundary-shaped contents from the FieldFormats shape space (in the documented language,
    /// accepted by the field parser and reproduced exactly): used by content policies > 0
    pub pool: BTreeMap<String, Vec<String>>,
}

pub const FOREIGN_TAG: &str = "99Z";

impl Contents {
    /// Add the in-language contents of a FieldFormats case file (labels naming boundary shapes).
    pub fn load_pool(&mut self, path: &str) -> usize {
        let f = match std::fs::File::open(path) { Ok(f) => std::io::BufReader::new(f), Err(_) => return 0 };
        let mut n = 0;
        for line in f.lines().map_while(|l| l.ok()) {
            let c: Value = match serde_json::from_str(&line) { Ok(v) => v, Err(_) => continue };
            if c["accept"] != true { continue; }
            let label = c["l"].as_str().unwrap_or("");
            if !(label.is_empty() || label.contains("max") || label.contains("min") || label.contains("absent") || label.contains("alt") || label.contains("1line") || label.contains("mid=")) { continue; }
            if label.contains('+') || label.contains("min-1") || label.contains("lit-") || label.contains("nl-")
                || label.contains("first=") || label.contains("last=") || label.contains("blank") || label.contains("code-") { continue; }
            let tag = c["tag"].as_str().unwrap_or("").to_string();
            let content: String = c["s"].as_array().map(|a| a.iter().filter_map(|x| x.as_str()).collect::<Vec<_>>().concat()).unwrap_or_default();
            if content.contains('<') { continue; }
            if let Ok(Some(Ok(o))) = guarded(|| crate::registry::parse_by_tag(&tag, &content)) {
                if lf(&o.ser) == format!(":{}:{}", tag, content) {
                    let e = self.pool.entry(tag).or_default();
                    if !e.contains(&content) { e.push(content); n += 1; }
                }
            }
        }
        n
    }

    /// Load the table and keep only entries the field parsers treat as declared
    /// (valid: accepted and re-serialised identically; invalid: rejected).
    pub fn load(path: &str) -> (Contents, Vec<Value>) {
        let raw: Value = serde_json::from_str(&std::fs::read_to_string(path).expect("contents"))
            .expect("contents json");
        let mut c = Contents { valid: BTreeMap::new(), invalid: BTreeMap::new(), pool: BTreeMap::new() };
        let mut notes = Vec::new();
        for (tag, v) in raw.as_object().unwrap() {
            if tag.starts_with('_') {
                continue;
            }
            let mut val = Vec::new();
            let mut inv = Vec::new();
            for s in v["valid"].as_array().unwrap() {
                let s = s.as_str().unwrap();
                if tag == FOREIGN_TAG {
                    val.push(s.to_string());
                    continue;
                }
                match guarded(|| crate::registry::parse_by_tag(tag, s)) {
                    Ok(Some(Ok(o))) => {
                        let expect = format!(":{}:{}", tag, s);
                        if lf(&o.ser) == expect {
                            val.push(s.to_string());
                        } else {
                            // another spelling of the same value is fine (and merely not used at message
                            // level); a serialisation that re-parses to another value, or not at all, is not
                            let body = lf(&o.ser);
                            let body = body.strip_prefix(&format!(":{}:", tag)).unwrap_or(&body).to_string();
                            let note = match guarded(|| crate::registry::parse_by_tag(tag, &body)) {
                                Ok(Some(Ok(o2))) if o2.json == o.json && o2.ser == o.ser => "valid entry in another spelling than the canonical one",
                                Ok(Some(Ok(_))) => "valid entry changes value on round trip",
                                _ => "valid entry serialises to text the field rejects",
                            };
                            notes.push(json!({"tag": tag, "content": s, "note": note, "ser": o.ser}));
                        }
                    }
                    Ok(Some(Err(e))) => notes.push(json!({"tag": tag, "content": s, "note": "valid entry rejected by field parser", "err": e})),
                    Ok(None) => notes.push(json!({"tag": tag, "note": "no parser registered"})),
                    Err(p) => notes.push(json!({"tag": tag, "content": s, "note": "field parser panicked", "panic": p})),
                }
            }
            for s in v["invalid"].as_array().unwrap() {
                let s = s.as_str().unwrap();
                if tag == FOREIGN_TAG {
                    inv.push(s.to_string());
                    continue;
                }
                match guarded(|| crate::registry::parse_by_tag(tag, s)) {
                    Ok(Some(Err(_))) => inv.push(s.to_string()),
                    Ok(Some(Ok(_))) => notes.push(json!({"tag": tag, "content": s, "note": "invalid entry accepted by field parser"})),
                    _ => {}
                }
            }
            c.valid.insert(tag.clone(), val);
            c.invalid.insert(tag.clone(), inv);
        }
        (c, notes)
    }
}

#[derive(Clone, Debug)]
pub struct AbsTok {
    pub tag: String,
    pub ok: bool,
}

pub struct Case {
    pub raw: Value,
    pub mt: String,
    pub toks: Vec<AbsTok>,
    pub muts: Vec<Value>,
    pub verdict: String,
    pub kind: String,
    pub gtag: String,
}

pub fn parse_case(v: Value) -> Case {
    let toks = v["t"]
        .as_array()
        .map(|a| {
            a.iter()
                .map(|s| {
                    let s = s.as_str().unwrap_or("");
                    if let Some(t) = s.strip_prefix('!') {
                        AbsTok { tag: t.to_string(), ok: false }
                    } else {
                        AbsTok { tag: s.to_string(), ok: true }
                    }
                })
                .collect()
        })
        .unwrap_or_default();
    Case {
        mt: v["mt"].as_str().unwrap_or("").to_string(),
        toks,
        muts: v["m"].as_array().cloned().unwrap_or_default(),
        verdict: v["v"].as_str().unwrap_or("").to_string(),
        kind: v["k"].as_str().unwrap_or("").to_string(),
        gtag: v["g"].as_str().unwrap_or("").to_string(),
        raw: v,
    }
}

pub fn concrete_tag(t: &str) -> &str {
    if t == "ZZ" { FOREIGN_TAG } else { t }
}

/// Concretise abstract tokens into (tag, content) pairs; None if the table lacks an entry.
pub fn concretise(c: &Contents, toks: &[AbsTok], policy: usize) -> Option<Vec<(String, String)>> {
    concretise_salted(c, toks, policy, 0)
}

/// `salt` varies which boundary-shaped content of the pool a case uses (policies >= 2)
pub fn concretise_salted(c: &Contents, toks: &[AbsTok], policy: usize, salt: usize) -> Option<Vec<(String, String)>> {
    let mut out = Vec::new();
    let mut seen: BTreeMap<String, usize> = BTreeMap::new();
    for t in toks {
        let tag = concrete_tag(&t.tag).to_string();
        let from_pool = t.ok && policy >= 2 && c.pool.get(&tag).map(|p| !p.is_empty()).unwrap_or(false);
        let list = if from_pool { c.pool.get(&tag)? } else if t.ok { c.valid.get(&tag)? } else { c.invalid.get(&tag)? };
        if list.is_empty() {
            return None;
        }
        let n = seen.entry(tag.clone()).or_insert(0);
        // policy 0: typical content everywhere; policy p>0: rotate through the alternatives,
        // and give repeated occurrences of a tag different contents so that loss, duplication
        // and reordering of equal tags are observable
        let idx = if policy == 0 { *n % list.len() } else if from_pool { (salt.wrapping_mul(7) + policy + *n) % list.len() } else { (policy + *n) % list.len() };
        *n += 1;
        out.push((tag, list[idx].clone()));
    }
    Some(out)
}

pub fn block4_text(fields: &[(String, String)]) -> String {
    let mut s = String::from("\r\n");
    for (tag, content) in fields {
        s.push(':');
        s.push_str(tag);
        s.push(':');
        s.push_str(&crlf(content));
        s.push_str("\r\n");
    }
    s
}

pub fn full_message(mt: &str, block4: &str) -> String {
    format!("{{1:F01BANKBEBBAXXX0000000000}}{{2:I{}BANKDEFFXXXXN}}{{4:{}-}}", mt, block4)
}

/// Outcome of one typed parse of a full message.
pub struct Outcome {
    pub accepted: bool,
    pub panic: Option<String>,
    pub err: Option<Value>,
    pub err_text: String,
    pub body_ser: String,
    pub msg_ser: String,
    pub json: Value,
    pub events: Vec<String>,
}

fn parse_typed<T: SwiftMessageBody + serde::de::DeserializeOwned>(full: &str, trace: bool) -> Outcome {
    #[cfg(swiftmt_verif)]
    {
        swift_mt_message::parser::verif_trace::take();
        swift_mt_message::parser::verif_trace::set_enabled(trace);
    }
    let _ = trace;
    let r = guarded(|| SwiftParser::parse::<T>(full));
    #[cfg(swiftmt_verif)]
    let events = {
        swift_mt_message::parser::verif_trace::set_enabled(false);
        swift_mt_message::parser::verif_trace::take()
    };
    #[cfg(not(swiftmt_verif))]
    let events: Vec<String> = Vec::new();
    match r {
        Err(p) => Outcome {
            accepted: false, panic: Some(p), err: None, err_text: String::new(),
            body_ser: String::new(), msg_ser: String::new(), json: Value::Null, events,
        },
        Ok(Err(e)) => Outcome {
            accepted: false, panic: None,
            err: Some(err_to_json(&e)), err_text: guarded(|| e.to_string()).unwrap_or_default(),
            body_ser: String::new(), msg_ser: String::new(), json: Value::Null, events,
        },
        Ok(Ok(m)) => {
            let ser = guarded(|| (m.fields.to_mt_string(), m.to_mt_message(), serde_json::to_value(&m).unwrap_or(Value::Null)));
            match ser {
                Ok((b, f, j)) => Outcome {
                    accepted: true, panic: None, err: None, err_text: String::new(),
                    body_ser: b, msg_ser: f, json: j, events,
                },
                Err(p) => Outcome {
                    accepted: true, panic: Some(p), err: None, err_text: String::new(),
                    body_ser: String::new(), msg_ser: String::new(), json: Value::Null, events,
                },
            }
        }
    }
}

pub fn err_to_json(e: &ParseError) -> Value {
    serde_json::to_value(e).unwrap_or(Value::Null)
}

pub fn run_typed(mt: &str, full: &str, trace: bool) -> Option<Outcome> {
    with_mt!(mt, T => Some(parse_typed::<T>(full, trace)), else None)
}

/// (variant, payload) of a serialised ParseError
pub fn err_variant(e: &Value) -> (String, Value) {
    if let Some(o) = e.as_object() {
        if let Some((k, v)) = o.iter().next() {
            return (k.clone(), v.clone());
        }
    }
    if let Some(s) = e.as_str() {
        return (s.to_string(), Value::Null);
    }
    ("?".into(), Value::Null)
}

fn same_tokens(a: &[Token], b: &[(String, String)]) -> bool {
    a.len() == b.len()
        && a.iter().zip(b.iter()).all(|(x, y)| x.tag == y.0 && lf(&x.content) == lf(&y.1))
}

fn diff_kind(input: &[(String, String)], out: &[Token]) -> String {
    let in_tags: Vec<&str> = input.iter().map(|t| t.0.as_str()).collect();
    let out_tags: Vec<&str> = out.iter().map(|t| t.tag.as_str()).collect();
    if in_tags == out_tags {
        // same tags, some content differs
        for (i, o) in input.iter().zip(out.iter()) {
            if lf(&i.1) != lf(&o.content) {
                return format!("content-changed:{}", i.0);
            }
        }
        return "same".into();
    }
    // subsequence?
    let mut j = 0;
    let mut dropped: Vec<&str> = Vec::new();
    for t in &in_tags {
        if j < out_tags.len() && out_tags[j] == *t {
            j += 1;
        } else {
            dropped.push(t);
        }
    }
    if j == out_tags.len() && !dropped.is_empty() {
        return format!("dropped:{}", dropped[0]);
    }
    let mut a = in_tags.clone();
    let mut b = out_tags.clone();
    a.sort();
    b.sort();
    if a == b {
        return "reordered".into();
    }
    "changed".into()
}

fn mut_kind(c: &Case) -> String {
    if c.muts.is_empty() {
        "none".into()
    } else {
        c.muts.iter().map(|m| m["k"].as_str().unwrap_or("?")).collect::<Vec<_>>().join("+")
    }
}

fn mut_tag(c: &Case) -> String {
    c.muts.first().map(|m| concrete_tag(m["t"].as_str().unwrap_or("?")).to_string()).unwrap_or_default()
}

/// Convert hook events into abstract trace events over token indices.
pub fn abstract_trace(
    case_id: usize, c: &Case, fields: &[(String, String)], block4: &str, out: &Outcome, out_tokens: &[Token], same: bool,
) -> Vec<Value> {
    let toks = tok::tokenize(block4).tokens;
    let idx = |off: i64| -> i64 {
        if off < 0 {
            return 0;
        }
        match tok::offset_to_index(block4, &toks, off as usize) {
            Ok(i) => i as i64,
            Err(j) => -(j as i64),
        }
    };
    let hit = |off: i64| -> i64 {
        if off < 0 {
            return 0;
        }
        for (i, t) in toks.iter().enumerate() {
            if t.start == off as usize {
                return (i + 1) as i64;
            }
            if (off as usize) > t.start && (off as usize) < t.end {
                return -((i + 1) as i64);
            }
        }
        0
    };
    let mut ev = Vec::new();
    ev.push(json!({
        "e": "begin", "id": case_id, "mt": c.mt,
        "toks": fields.iter().map(|f| f.0.clone()).collect::<Vec<_>>(),
        "fams": fields.iter().map(|f| f.0.chars().take(2).collect::<String>()).collect::<Vec<_>>(),
        "ok": c.toks.iter().map(|t| t.ok).collect::<Vec<_>>(),
        "exp": c.verdict,
    }));
    for line in &out.events {
        let v: Value = match serde_json::from_str(line) { Ok(v) => v, Err(_) => continue };
        let name = v["event"].as_str().unwrap_or("");
        match name {
            "new" => ev.push(json!({"e": "new", "mt": v["mt"], "ntok": toks.len()})),
            "dup" => ev.push(json!({"e": "dup", "allow": v["allow"]})),
            "extract" => ev.push(json!({
                "e": "extract", "tag": v["tag"], "opt": v["optional"],
                "at": idx(v["pos0"].as_i64().unwrap_or(-1)),
                "hit": hit(v["found"].as_i64().unwrap_or(-1)),
                "to": idx(v["pos1"].as_i64().unwrap_or(-1)),
                "res": v["res"],
            })),
            "invalid" => ev.push(json!({"e": "invalid", "tag": v["tag"]})),
            "variant" => ev.push(json!({
                "e": "variant", "base": v["base"], "at": idx(v["pos0"].as_i64().unwrap_or(-1)), "res": v["res"],
            })),
            "detect" => ev.push(json!({
                "e": "detect", "tag": v["tag"], "at": idx(v["pos0"].as_i64().unwrap_or(-1)), "res": v["res"],
            })),
            "complete" => ev.push(json!({
                "e": "complete", "at": idx(v["pos0"].as_i64().unwrap_or(-1)), "res": v["res"],
            })),
            _ => ev.push(json!({"e": name})),
        }
    }
    let res = if out.panic.is_some() { "panic" } else if out.accepted { "accepted" } else { "rejected" };
    ev.push(json!({
        "e": "end", "res": res,
        "out": out_tokens.iter().map(|t| t.tag.clone()).collect::<Vec<_>>(),
        "same": same,
    }));
    ev
}

#[derive(Default)]
pub struct Tally {
    pub evaluated: u64,
    pub violations: Vec<Value>,
    pub notes: BTreeMap<String, u64>,
    pub samples: Vec<Value>,
}

pub fn run(args: &[String]) -> i32 {
    let cases_path = arg(args, "--cases").expect("--cases");
    let out_path = arg(args, "--out").expect("--out");
    let traces_path = arg(args, "--traces");
    let trace_every: usize = arg(args, "--trace-every").and_then(|s| s.parse().ok()).unwrap_or(1);
    let trace_max_toks: usize = arg(args, "--trace-max-toks").and_then(|s| s.parse().ok()).unwrap_or(60);
    let policies: usize = arg(args, "--policies").and_then(|s| s.parse().ok()).unwrap_or(1);
    let contents_path = &arg(args, "--contents").map(|s| s.to_string()).unwrap_or_else(crate::util::contents_default);
    let seed = seed_from_env();
    let (mut contents, content_notes) = Contents::load(contents_path);
    let pool_size = arg(args, "--pool").map(|p| contents.load_pool(p)).unwrap_or(0);

    let mut props: BTreeMap<&str, Tally> = BTreeMap::new();
    for p in ["C01", "C02", "C03", "C09", "C14"] {
        props.insert(p, Tally::default());
    }
    let mut traces_out = traces_path.map(|p| std::io::BufWriter::new(std::fs::File::create(p).expect("traces")));
    let mut n_traces = 0u64;
    let mut n_trace_events = 0u64;
    let mut distinct: BTreeSet<String> = BTreeSet::new();
    let mut nontrivial = 0u64;
    let mut skipped_unconcretisable = 0u64;
    let mut total = 0u64;
    let mut per_type: BTreeMap<String, u64> = BTreeMap::new();
    let mut rng = Rng::new(seed);
    let mut hosts: BTreeMap<String, (String, Vec<(String, String)>, usize)> = BTreeMap::new();

    let f = std::io::BufReader::new(std::fs::File::open(cases_path).expect("cases"));
    for (case_id, line) in f.lines().enumerate() {
        let line = match line { Ok(l) => l, Err(_) => continue };
        if line.trim().is_empty() {
            continue;
        }
        let v: Value = match serde_json::from_str(&line) { Ok(v) => v, Err(_) => continue };
        let c = parse_case(v);
        let key = format!("{}|{:?}|{}", c.mt, c.toks.iter().map(|t| format!("{}{}", if t.ok { "" } else { "!" }, t.tag)).collect::<Vec<_>>(), c.raw["m"]);
        let is_new = distinct.insert(key);
        if is_new && (!c.muts.is_empty() || c.raw["nopt"].as_u64().unwrap_or(0) > 0 || c.raw["nalt"].as_u64().unwrap_or(0) > 0 || c.raw["mode"] != "sparse") {
            nontrivial += 1;
        }
        for policy in 0..policies {
            let fields = match concretise_salted(&contents, &c.toks, policy, case_id) {
                Some(f) => f,
                None => { skipped_unconcretisable += 1; continue; }
            };
            let block4 = block4_text(&fields);
            let full = full_message(&c.mt, &block4);
            let want_trace = traces_out.is_some() && policy == 0 && (case_id % trace_every == 0) && c.toks.len() <= trace_max_toks;
            let out = match run_typed(&c.mt, &full, want_trace) { Some(o) => o, None => continue };
            total += 1;
            *per_type.entry(c.mt.clone()).or_insert(0) += 1;
            let out_tokens = if out.accepted { tok::tokenize(&out.body_ser).tokens } else { Vec::new() };
            let same = out.accepted && same_tokens(&out_tokens, &fields);
            let mk = mut_kind(&c);
            let replay = json!({"case": c.raw, "policy": policy, "text": full});
            // hosts for the embedding step: the first accepted, exactly reproduced, unmutated message per tag
            if policy == 0 && c.muts.is_empty() && c.verdict == "accept" && same && out.panic.is_none() {
                for (i, (tag, _)) in fields.iter().enumerate() {
                    hosts.entry(tag.clone()).or_insert_with(|| (c.mt.clone(), fields.clone(), i));
                }
            }

            // ---------------- C07-style observation: panics are data ----------------
            if let Some(p) = &out.panic {
                *props.get_mut("C01").unwrap().notes.entry(format!("panic:{}", p)).or_insert(0) += 1;
            }

            // ---------------- C01: accepted => nothing lost / reordered --------------
            {
                let t = props.get_mut("C01").unwrap();
                t.evaluated += 1;
                if out.accepted && out.panic.is_none() && !same {
                    let d = diff_kind(&fields, &out_tokens);
                    let sig = format!("C01|MT{}|{}|{}|{}", c.mt, mk, mut_tag(&c), d);
                    t.violations.push(json!({"sig": sig, "replay": replay, "detail": {
                        "in": fields.iter().map(|f| f.0.clone()).collect::<Vec<_>>(),
                        "out": out_tokens.iter().map(|t| t.tag.clone()).collect::<Vec<_>>()}}));
                } else if out.accepted && c.verdict == "reject" {
                    *t.notes.entry(format!("lossless-accept-of-reference-reject:{}:{}", c.kind, mk)).or_insert(0) += 1;
                }
                if t.samples.len() < 3 || (t.samples.len() < 6 && rng.below(2000) == 0) {
                    t.samples.push(json!({"case": c.raw, "accepted": out.accepted, "text": full}));
                }
            }

            // ---------------- C03: unmutated walks accepted and reproduced ------------
            if c.muts.is_empty() && c.verdict == "accept" {
                let t = props.get_mut("C03").unwrap();
                t.evaluated += 1;
                if !out.accepted {
                    let (var, pay) = out.err.as_ref().map(err_variant).unwrap_or(("panic".into(), Value::Null));
                    let tag = pay.get("field_tag").and_then(|x| x.as_str()).unwrap_or("").to_string();
                    let sig = format!("C03|MT{}|rejected|{}:{}", c.mt, var, tag);
                    t.violations.push(json!({"sig": sig, "replay": replay, "detail": {"err": out.err, "panic": out.panic}}));
                } else if !same {
                    let sig = format!("C03|MT{}|not-reproduced|{}", c.mt, diff_kind(&fields, &out_tokens));
                    t.violations.push(json!({"sig": sig, "replay": replay}));
                } else {
                    // byte-for-byte (after line-ending normalisation, ignoring the block delimiters)
                    let a = lf(&out.body_ser);
                    let b = lf(&block4);
                    if a.trim_matches('\n') != b.trim_matches('\n') {
                        let sig = format!("C03|MT{}|bytes-differ", c.mt);
                        t.violations.push(json!({"sig": sig, "replay": replay, "detail": {"ser": out.body_ser}}));
                    }
                    // component placement: an identifier / account line (first line starting with '/') of a
                    // multi-line party field must not be filed among the name-and-address lines
                    fn in_arrays(v: &Value, line: &str) -> bool {
                        match v {
                            Value::Array(a) => a.iter().any(|x| x.as_str() == Some(line) || in_arrays(x, line)),
                            Value::Object(o) => o.values().any(|x| in_arrays(x, line)),
                            _ => false,
                        }
                    }
                    for (tag, content) in &fields {
                        let line1 = content.split('\n').next().unwrap_or("");
                        if content.contains('\n') && line1.starts_with('/') && line1.len() <= 35
                            && ["50", "52", "53", "54", "55", "56", "57", "58", "59"].contains(&&tag[..2])
                            && in_arrays(&out.json["fields"], line1) {
                            let sig = format!("C03|MT{}|component-misfiled|{}", c.mt, tag);
                            t.violations.push(json!({"sig": sig, "replay": replay, "detail": {"line": line1}}));
                        }
                    }
                }
                if t.samples.len() < 3 {
                    t.samples.push(json!({"case": c.raw, "text": full}));
                }
            }

            // ---------------- C09: culprit named ---------------------------------------
            // (a deleted mandatory field of an OPTIONAL sequence whose other fields remain is reported by the
            // LL(1) reference as "unexpected <next field>": the message still lacks a mandatory field of a
            // sequence it contains, so it must be rejected; only the naming of the culprit is not demanded then)
            if c.muts.len() == 1 && c.verdict == "reject"
                && (c.kind == "missing" || c.kind == "missingseq" || c.kind == "invalid" || (c.kind == "unexpected" && c.muts[0]["k"] == "del")) {
                let k = c.muts[0]["k"].as_str().unwrap_or("");
                let is_missing = c.kind == "missing" || c.kind == "missingseq";
                // C09 quantifies over messages the library accepts before the mutation: undo the
                // mutation and make sure the base message is accepted (if not, that is C03's matter)
                let base_ok = {
                    let p = c.muts[0]["p"].as_u64().unwrap_or(1) as usize;
                    let mut base = c.toks.clone();
                    if k == "del" && p >= 1 && p <= base.len() + 1 {
                        base.insert(p - 1, AbsTok { tag: c.muts[0]["t"].as_str().unwrap_or("").to_string(), ok: true });
                    } else if k == "bad" && p >= 1 && p <= base.len() {
                        base[p - 1].ok = true;
                    }
                    match concretise_salted(&contents, &base, policy, case_id) {
                        Some(bf) => run_typed(&c.mt, &full_message(&c.mt, &block4_text(&bf)), false).map(|o| o.accepted).unwrap_or(false),
                        None => false,
                    }
                };
                let del_in_optional_sequence = k == "del" && c.kind == "unexpected";
                if del_in_optional_sequence && base_ok {
                    let t = props.get_mut("C09").unwrap();
                    t.evaluated += 1;
                    if out.accepted {
                        let sig = format!("C09|MT{}|del|{}|accepted-without-mandatory-field-of-its-sequence", c.mt, c.muts[0]["t"].as_str().unwrap_or(""));
                        t.violations.push(json!({"sig": sig, "replay": replay}));
                    }
                }
                if ((k == "del" && is_missing) || (k == "bad" && c.kind == "invalid")) && !base_ok {
                    *props.get_mut("C09").unwrap().notes.entry("skipped:base-message-rejected".into()).or_insert(0) += 1;
                }
                if ((k == "del" && is_missing) || (k == "bad" && c.kind == "invalid")) && base_ok {
                    let t = props.get_mut("C09").unwrap();
                    t.evaluated += 1;
                    if out.accepted {
                        let sig = format!("C09|MT{}|{}|{}|accepted", c.mt, k, c.gtag);
                        t.violations.push(json!({"sig": sig, "replay": replay}));
                    } else if out.panic.is_none() {
                        let (var, pay) = out.err.as_ref().map(err_variant).unwrap_or(("?".into(), Value::Null));
                        let etag = pay.get("field_tag").and_then(|x| x.as_str()).unwrap_or("");
                        let emt = pay.get("message_type").and_then(|x| x.as_str()).unwrap_or("");
                        if is_missing {
                            let names_tag = c.kind == "missingseq" || ((var == "MissingRequiredField" && (etag == c.gtag || (etag.starts_with(&c.gtag) && etag.len() <= c.gtag.len() + 1)))
                                || (var != "MissingRequiredField" && out.err_text.contains(&c.gtag)));
                            let names_type = emt == c.mt || out.err_text.contains(&c.mt);
                            if !(names_tag && names_type) {
                                let sig = format!("C09|MT{}|del|{}|error-does-not-name:{}:{}", c.mt, c.gtag, var, etag);
                                t.violations.push(json!({"sig": sig, "replay": replay, "detail": {"err": out.err, "text": out.err_text}}));
                            }
                        } else {
                            let want = concrete_tag(&c.gtag);
                            let p = c.muts[0]["p"].as_u64().unwrap_or(1) as usize;
                            let content = fields.get(p - 1).map(|f| f.1.clone()).unwrap_or_default();
                            let val = pay.get("value").and_then(|x| x.as_str()).unwrap_or("");
                            if !(var == "InvalidFieldFormat" && etag == want && lf(val) == lf(&content)) {
                                let sig = format!("C09|MT{}|bad|{}|error-does-not-name:{}:{}", c.mt, want, var, etag);
                                t.violations.push(json!({"sig": sig, "replay": replay, "detail": {"err": out.err, "text": out.err_text}}));
                            }
                        }
                    }
                    if t.samples.len() < 3 {
                        t.samples.push(json!({"case": c.raw, "err": out.err, "text": full}));
                    }
                }
            }

            // ---------------- C14: the option letter decides, in every message position --------
            if c.muts.len() == 1 && c.muts[0]["k"] == "letter" {
                let t = props.get_mut("C14").unwrap();
                t.evaluated += 1;
                let p = c.muts[0]["p"].as_u64().unwrap_or(1) as usize;
                if out.accepted && out.panic.is_none() {
                    let want = fields.get(p - 1).map(|f| f.0.clone()).unwrap_or_default();
                    let got = out_tokens.get(p - 1).map(|t| t.tag.clone()).unwrap_or_default();
                    if got != want {
                        let sig = format!("C14|MT{}|{}-parsed-as-{}", c.mt, want, if out_tokens.len() == fields.len() { got } else { "dropped-or-moved".to_string() });
                        t.violations.push(json!({"sig": sig, "replay": replay}));
                    } else if c.verdict == "reject" {
                        *t.notes.entry(format!("letter-outside-reference-layout-accepted-and-preserved:MT{}:{}", c.mt, want)).or_insert(0) += 1;
                    }
                }
                if t.samples.len() < 3 {
                    t.samples.push(json!({"case": c.raw, "accepted": out.accepted, "text": full}));
                }
            }

            // ---------------- C02: round trip stable ------------------------------------
            if out.accepted && out.panic.is_none() {
                let t = props.get_mut("C02").unwrap();
                t.evaluated += 1;
                let second = run_typed(&c.mt, &out.msg_ser, false).unwrap();
                if !second.accepted {
                    let (var, pay) = second.err.as_ref().map(err_variant).unwrap_or(("panic".into(), Value::Null));
                    let tag = pay.get("field_tag").and_then(|x| x.as_str()).unwrap_or("").to_string();
                    let sig = format!("C02|MT{}|reparse-rejected|{}:{}", c.mt, var, tag);
                    t.violations.push(json!({"sig": sig, "replay": replay, "detail": {"ser": out.msg_ser, "err": second.err}}));
                } else if second.json != out.json {
                    let sig = format!("C02|MT{}|value-changed", c.mt);
                    t.violations.push(json!({"sig": sig, "replay": replay}));
                } else if second.msg_ser != out.msg_ser {
                    let sig = format!("C02|MT{}|not-fixed-point", c.mt);
                    t.violations.push(json!({"sig": sig, "replay": replay}));
                }
                if t.samples.len() < 3 {
                    t.samples.push(json!({"case": c.raw, "ser": out.msg_ser}));
                }
            }

            // ---------------- trace (impl -> spec) ---------------------------------------
            if want_trace {
                if let Some(w) = traces_out.as_mut() {
                    let evs = abstract_trace(case_id, &c, &fields, &block4, &out, &out_tokens, same);
                    n_traces += 1;
                    n_trace_events += evs.len() as u64;
                    for e in evs {
                        let _ = writeln!(w, "{}", e);
                    }
                }
            }
        }
    }
    if let Some(w) = traces_out.as_mut() {
        let _ = w.flush();
    }
    // ---------------- embedding: every out-of-format content of the FieldFormats shape space inside a message ----
    // "A message in which exactly one field has content that violates that field's format is rejected, and the
    // error names that field's tag and carries its content" (C09); if it is accepted all the same, whether the
    // content survives is C01's matter. The text block gives a field its value with surrounding white space
    // removed, so contents that start or end with white space are a different content there and are left out.
    let mut embedded = 0u64;
    let mut embed_no_host: BTreeSet<String> = BTreeSet::new();
    if let Some(path) = arg(args, "--embed") {
        if let Ok(fh) = std::fs::File::open(path) {
            for line in std::io::BufReader::new(fh).lines().map_while(|l| l.ok()) {
                let fc: Value = match serde_json::from_str(&line) { Ok(v) => v, Err(_) => continue };
                if fc["accept"] != false { continue; }
                let tag = fc["tag"].as_str().unwrap_or("").to_string();
                let label = fc["l"].as_str().unwrap_or("").to_string();
                let content: String = fc["s"].as_array().map(|a| a.iter().filter_map(|x| x.as_str()).collect::<Vec<_>>().concat()).unwrap_or_default()
                    .replace("<MB>", "\u{e9}").replace("<AD>", "\u{661}");
                if content.is_empty() || content != content.trim() || content.contains("\n-\n") || content.ends_with("\n-") { continue; }
                // line ends are the text block's business there (it is written with CR LF and normalised before a field sees it)
                if content.contains('\r') { continue; }
                // a line that opens with a field marker starts a new field in a text block
                if content.split('\n').skip(1).any(|l| l.starts_with(':')) { continue; }
                let (mt, base, pos) = match hosts.get(&tag) { Some(h) => h.clone(), None => { embed_no_host.insert(tag); continue; } };
                let mut fields = base.clone();
                fields[pos].1 = content.clone();
                let full = full_message(&mt, &block4_text(&fields));
                let out = match run_typed(&mt, &full, false) { Some(o) => o, None => continue };
                embedded += 1;
                let lab = label.replace("=\u{661}", "=non-ascii-digit").replace("=<AD>", "=non-ascii-digit").replace("=<MB>", "=multibyte").replace("= ", "=space");
                let replay = json!({"kind": "embed", "mt": mt, "tag": tag, "label": label, "content": content, "text": full});
                let t9 = props.get_mut("C09").unwrap();
                t9.evaluated += 1;
                if let Some(pn) = &out.panic {
                    *t9.notes.entry(format!("panic:{}", pn)).or_insert(0) += 1;
                } else if out.accepted {
                    t9.violations.push(json!({"sig": format!("C09|Field{}|out-of-format-accepted-in-MT{}|{}", tag, mt, lab), "replay": replay}));
                    let out_tokens = tok::tokenize(&out.body_ser).tokens;
                    let t1 = props.get_mut("C01").unwrap();
                    t1.evaluated += 1;
                    if !same_tokens(&out_tokens, &fields) {
                        t1.violations.push(json!({"sig": format!("C01|Field{}|out-of-format-accepted-and-changed-in-MT{}|{}", tag, mt, lab), "replay": replay,
                            "detail": {"ser": out.body_ser}}));
                    }
                } else {
                    let (var, pay) = out.err.as_ref().map(err_variant).unwrap_or(("?".into(), Value::Null));
                    let etag = pay.get("field_tag").and_then(|x| x.as_str()).unwrap_or("");
                    let val = pay.get("value").and_then(|x| x.as_str()).unwrap_or("");
                    if !(var == "InvalidFieldFormat" && etag == tag && lf(val) == lf(&content)) {
                        t9.violations.push(json!({"sig": format!("C09|Field{}|embedded-error-does-not-name:{}:{}", tag, var, etag), "replay": replay,
                            "detail": {"err": out.err, "text": out.err_text}}));
                    }
                }
            }
        }
    }
    let mut pj = serde_json::Map::new();
    for (p, t) in props {
        pj.insert(p.to_string(), json!({
            "evaluated": t.evaluated, "violations": t.violations, "notes": t.notes, "samples": t.samples,
        }));
    }
    let summary = json!({
        "total_executions": total, "distinct_cases": distinct.len(), "distinct_nontrivial": nontrivial,
        "skipped_unconcretisable": skipped_unconcretisable, "per_type": per_type,
        "traces": n_traces, "trace_events": n_trace_events,
        "content_notes": content_notes, "pool_contents": pool_size, "embedded_contents": embedded,
        "embed_without_host": embed_no_host.into_iter().collect::<Vec<_>>(), "props": pj, "seed": seed,
    });
    std::fs::write(out_path, serde_json::to_string(&summary).unwrap()).expect("write out");
    0
}
