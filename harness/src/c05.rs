//! C05: field parsers accept exactly their documented format. Cases (tag, deviation label,
//! characters, reference verdict) come from FieldFormats.tla.

use crate::registry::parse_by_tag;
use crate::util::*;
use serde_json::{Value, json};
use std::collections::BTreeMap;
use std::io::BufRead;

pub fn run(args: &[String]) -> i32 {
    let cases = arg(args, "--cases").expect("--cases");
    let out_path = arg(args, "--out").expect("--out");
    let f = std::io::BufReader::new(std::fs::File::open(cases).expect("cases"));
    let mut evaluated = 0u64;
    let mut in_lang = 0u64;
    let mut nontrivial = 0u64;
    let mut violations: BTreeMap<String, (u64, Value)> = BTreeMap::new();
    // field-level C02: serialise, re-parse, compare value and text
    let mut c02: BTreeMap<String, (u64, Value)> = BTreeMap::new();
    let mut c02_evaluated = 0u64;
    let mut c03: BTreeMap<String, (u64, Value)> = BTreeMap::new();
    let mut c03_evaluated = 0u64;
    let mut c03_components = 0u64;
    let mut panics: BTreeMap<String, u64> = BTreeMap::new();
    let mut per_tag: BTreeMap<String, u64> = BTreeMap::new();
    let mut samples: Vec<Value> = Vec::new();
    let all: Vec<Value> = f.lines().map_while(|l| l.ok()).filter_map(|l| serde_json::from_str(&l).ok()).collect();
    // field types whose typical content the library writes back character for character: for those the generator's
    // spelling is the library's canonical one (field 25 gains a slash, 37H is written with four decimals: not those)
    let mut canonical_tags: std::collections::BTreeSet<String> = Default::default();
    for c in &all {
        if c["l"] != "" { continue; }
        let tag = c["tag"].as_str().unwrap_or("");
        let content: String = c["s"].as_array().map(|a| a.iter().filter_map(|x| x.as_str()).collect::<Vec<_>>().concat()).unwrap_or_default();
        if let Ok(Some(Ok(o))) = guarded(|| parse_by_tag(tag, &content)) {
            if lf(&o.ser) == format!(":{}:{}", tag, content) { canonical_tags.insert(tag.to_string()); }
        }
    }
    for c in all {
        let tag = c["tag"].as_str().unwrap_or("");
        let label = c["l"].as_str().unwrap_or("");
        let content: String = c["s"].as_array().map(|a| a.iter().filter_map(|x| x.as_str()).collect::<Vec<_>>().concat()).unwrap_or_default()
            .replace("<MB>", "\u{e9}").replace("<AD>", "\u{661}");
        let want = c["accept"].as_bool().unwrap_or(false);
        let amt = c["amt"].as_bool().unwrap_or(false);
        evaluated += 1;
        *per_tag.entry(tag.to_string()).or_insert(0) += 1;
        if want { in_lang += 1; }
        if !label.is_empty() { nontrivial += 1; }
        let replay = json!({"kind": "field", "tag": tag, "label": label, "content": content, "reference_accepts": want});
        let mut hit = |sig: String, extra: Value| {
            let mut r = replay.clone();
            r["detail"] = extra;
            let e = violations.entry(sig).or_insert((0, r));
            e.0 += 1;
        };
        // labels carry concrete foreign characters; class them so that signatures stay stable
        let lab = label.replace("=<AD>", "=non-ascii-digit").replace("=<MB>", "=multibyte").replace("= ", "=space");
        match guarded(|| parse_by_tag(tag, &content)) {
            Err(p) => { *panics.entry(format!("C05|Field{}|panic|{}", tag, p.split(':').next().unwrap_or(""))).or_insert(0) += 1; }
            Ok(None) => {}
            Ok(Some(Err(e))) => {
                if want { hit(format!("C05|Field{}|in-format-rejected|{}", tag, lab), json!({"err": e})); }
                // C03 at field level: a well-formed component value -- one the pool of boundary contents would hand to
                // the message level, if the field did not refuse it -- is accepted
                let structural = label.split(" & ").all(|d| {
                    let atom = d.rsplit('.').next().unwrap_or("");
                    d.is_empty() || ["min", "max", "absent", "1line", "maxlines"].contains(&atom) || d.ends_with("lastline.max") || atom.ends_with("-max") || atom == "AMT-maxc"
                });
                if want && structural && !content.contains('<') {
                    let mut r = replay.clone();
                    r["detail"] = json!({"err": e});
                    let en = c03.entry(format!("C03|Field{}|rejected|{}", tag, lab)).or_insert((0, r));
                    en.0 += 1;
                }
            }
            Ok(Some(Ok(o))) => {
                // ---- C02 at field level: whatever is accepted must survive its own serialisation
                {
                    c02_evaluated += 1;
                    let ser = lf(&o.ser);
                    let body = ser.strip_prefix(&format!(":{}:", tag)).unwrap_or(&ser).to_string();
                    let mut c02hit = |sig: String, extra: Value| {
                        let mut r = replay.clone();
                        r["detail"] = extra;
                        let e = c02.entry(sig).or_insert((0, r));
                        e.0 += 1;
                    };
                    match guarded(|| parse_by_tag(tag, &body)) {
                        Ok(Some(Ok(o2))) => {
                            if o2.json != o.json {
                                c02hit(format!("C02|Field{}|value-changed|{}", tag, lab), json!({"ser": o.ser, "first": o.json, "second": o2.json}));
                            } else if lf(&o2.ser) != ser {
                                c02hit(format!("C02|Field{}|not-fixed-point|{}", tag, lab), json!({"ser": o.ser, "ser2": o2.ser}));
                            }
                        }
                        Ok(Some(Err(e))) => c02hit(format!("C02|Field{}|reparse-rejected|{}", tag, lab), json!({"ser": o.ser, "err": e})),
                        _ => {}
                    }
                }
                // ---- C03 at field level: the parsed value exposes each top-level component as it was written
                // (only contents whose deviations change a component's length, value or presence: a missing line break
                // or literal that happens to stay inside the language re-segments the content, and the generated parts
                // are then not the components any more)
                let structural = label.split(" & ").all(|d| {
                    let atom = d.rsplit('.').next().unwrap_or("");
                    d.is_empty() || ["min", "max", "absent", "1line", "maxlines", "code-other", "plainname"].contains(&atom) || d.ends_with("lastline.max")
                        || atom.ends_with("-max") || atom == "AMT-maxc" || (atom.starts_with("alt") && atom[3..].chars().all(|c| c.is_ascii_digit()) && atom.len() > 3)
                        || atom.starts_with("mid=")
                });
                if want && structural && !content.contains('<') {
                    let parts: Vec<String> = c["p"].as_array().map(|a| a.iter().map(|x| x.as_array().map(|cs| cs.iter().filter_map(|y| y.as_str()).collect::<Vec<_>>().concat()).unwrap_or_default()).collect()).unwrap_or_default();
                    // a content in the library's canonical spelling is reproduced character for character
                    // (numbers are written back padded, so a deviation in a numeric component is another spelling)
                    let int_comps: Vec<usize> = crate::comps::bindings(tag).iter().filter(|b| b.2 == crate::comps::Kind::Int).map(|b| b.0).collect();
                    let canonical = canonical_tags.contains(tag) && label.split(" & ").all(|d| {
                        let k: usize = d.split('.').next().and_then(|x| x.parse().ok()).unwrap_or(0);
                        !d.ends_with("AMT-max") && !d.ends_with("AMT0-max") && !int_comps.contains(&k)
                    });
                    if canonical && !parts.is_empty() && lf(&o.ser) != format!(":{}:{}", tag, content) {
                        let mut r = replay.clone();
                        r["detail"] = json!({"ser": o.ser});
                        let e = c03.entry(format!("C03|Field{}|not-reproduced|{}", tag, lab)).or_insert((0, r));
                        e.0 += 1;
                    }
                    if !parts.is_empty() {
                        c03_evaluated += 1;
                        for (k, key, kind) in crate::comps::bindings(tag) {
                            let part = match parts.get(k - 1) { Some(p) => p, None => continue };
                            c03_components += 1;
                            if let Some(why) = crate::comps::differs(*kind, part, o.json.get(*key)) {
                                let mut r = replay.clone();
                                r["detail"] = json!({"component": k, "member": key, "why": why, "json": o.json});
                                let e = c03.entry(format!("C03|Field{}|component-not-exposed|{}|{}", tag, key, lab)).or_insert((0, r));
                                e.0 += 1;
                            }
                        }
                    }
                }
                if !want {
                    hit(format!("C05|Field{}|out-of-format-accepted|{}", tag, lab), json!({"ser": o.ser, "json": o.json}));
                } else {
                    if !amt {
                        // accepted as a whole: nothing ignored, truncated or re-numbered -- every character
                        // of the content must reappear, in order, in the serialised field (a serialiser
                        // may add canonical decoration such as a leading slash, but may lose nothing)
                        let body = lf(&o.ser);
                        let body = body.strip_prefix(&format!(":{}:", tag)).unwrap_or(&body).to_string();
                        let mut it = body.chars();
                        // (line endings are the library's to normalise: CR LF reads as LF)
                        let kept = lf(&content).chars().all(|c| it.by_ref().any(|d| d == c));
                        if !kept {
                            hit(format!("C05|Field{}|accepted-but-altered|{}", tag, lab), json!({"ser": o.ser}));
                        }
                    }
                    // a first line that is the optional identifier / account line ([/34x] etc.) must not
                    // end up among the name-and-address lines
                    let idl = c["idl"].as_u64().unwrap_or(if c["first"] == "idline" { 1 } else { 0 }) as usize;
                    if idl > 0 {
                        let line1 = content.split('\n').nth(idl - 1).unwrap_or("");
                        // (a slash line in last position is the last line of the field, e.g. a BIC line's place)
                        if line1.starts_with('/') && content.split('\n').count() > idl {
                            let mut in_arrays = false;
                            fn scan(v: &Value, line1: &str, found: &mut bool) {
                                match v {
                                    Value::Array(a) => for x in a { if x.as_str() == Some(line1) { *found = true; } scan(x, line1, found); },
                                    Value::Object(o) => for x in o.values() { scan(x, line1, found); },
                                    _ => {}
                                }
                            }
                            scan(&o.json, line1, &mut in_arrays);
                            // ... unless the line was filed as identifier too (a text line may happen to
                            // read the same as the identifier line)
                            fn scalar(v: &Value, want: &[&str], found: &mut bool, in_array: bool) {
                                match v {
                                    Value::String(x) => if !in_array && want.contains(&x.as_str()) { *found = true; },
                                    Value::Array(a) => for x in a { scalar(x, want, found, true); },
                                    Value::Object(o) => for x in o.values() { scalar(x, want, found, false); },
                                    _ => {}
                                }
                            }
                            let mut as_identifier = false;
                            scalar(&o.json, &[line1, &line1[1..]], &mut as_identifier, false);
                            if in_arrays && !as_identifier {
                                hit(format!("C05|Field{}|identifier-line-filed-as-text-line|{}", tag, lab), json!({"json": o.json}));
                            }
                        }
                    }
                }
            }
        }
        if samples.len() < 5 && label.contains("max+1") {
            samples.push(json!({"tag": tag, "label": label, "content": content, "reference_accepts": want}));
        }
    }
    // a case with several deviations ("a & b") is reported only if none of its single deviations
    // already shows the same kind of violation for the same field
    let keys: std::collections::BTreeSet<String> = violations.keys().cloned().collect();
    let mut subsumed = 0u64;
    violations.retain(|sig, _| {
        let parts: Vec<&str> = sig.splitn(4, '|').collect();
        if parts.len() < 4 || !parts[3].contains(" & ") {
            return true;
        }
        let single = parts[3].split(" & ").any(|l| keys.contains(&format!("{}|{}|{}|{}", parts[0], parts[1], parts[2], l)));
        if single { subsumed += 1; }
        !single
    });
    // same minimisation for the field-level round-trip results; a field whose typical content
    // already fails subsumes all its deviating contents
    let keys2: std::collections::BTreeSet<String> = c02.keys().cloned().collect();
    c02.retain(|sig, _| {
        let parts: Vec<&str> = sig.splitn(4, '|').collect();
        if parts.len() < 4 || parts[3].is_empty() {
            return true;
        }
        if keys2.contains(&format!("{}|{}|{}|", parts[0], parts[1], parts[2])) {
            return false;
        }
        !(parts[3].contains(" & ") && parts[3].split(" & ").any(|l| keys2.contains(&format!("{}|{}|{}|{}", parts[0], parts[1], parts[2], l))))
    });
    let violations: Vec<Value> = violations.iter().map(|(sig, (n, r))| json!({"sig": sig, "count": n, "replay": r})).collect();
    let c03v: Vec<Value> = c03.iter().map(|(sig, (n, r))| json!({"sig": sig, "count": n, "replay": r})).collect();
    let c02v: Vec<Value> = c02.iter().map(|(sig, (n, r))| json!({"sig": sig, "count": n, "replay": r})).collect();
    std::fs::write(out_path, json!({"evaluated": evaluated, "in_language": in_lang, "distinct_nontrivial": nontrivial,
        "fields": per_tag.len(), "subsumed_multi_deviation": subsumed, "violations": violations, "c02_evaluated": c02_evaluated, "c02_violations": c02v, "c03_evaluated": c03_evaluated, "c03_components": c03_components, "c03_violations": c03v, "panics_noted_for_C07": panics, "samples": samples}).to_string()).expect("write");
    0
}
