//! C15: every shipped scenario, for every draw, publishes to a message that validates cleanly
//! and parses back to exactly the generated JSON. Records one pipeline trace per draw.

use crate::plugins::run_plugin_on;
use crate::tok;
use crate::with_mt;
use crate::util::*;
use dataflow_rs::engine::message::Message;
use serde_json::{Value, json};
use std::io::Write;

/// canonical decimal of a JSON number (exact for integers and shortest-round-trip floats)
fn num_key(n: &serde_json::Number) -> String {
    let s = n.to_string();
    let (mant, exp) = match s.find(|c| c == 'e' || c == 'E') { Some(p) => (s[..p].to_string(), s[p + 1..].parse::<i32>().unwrap_or(0)), None => (s.clone(), 0) };
    let neg = mant.starts_with('-');
    let mant = mant.trim_start_matches('-');
    let (ip, fp) = match mant.find('.') { Some(p) => (&mant[..p], &mant[p + 1..]), None => (mant, "") };
    let mut digits = format!("{}{}", ip, fp);
    let mut point = ip.len() as i32 + exp;
    if point < 0 { digits = format!("{}{}", "0".repeat((-point) as usize), digits); point = 0; }
    if point as usize > digits.len() { digits.push_str(&"0".repeat(point as usize - digits.len())); }
    let (a, b) = digits.split_at(point as usize);
    let a = a.trim_start_matches('0');
    let b = b.trim_end_matches('0');
    format!("{}{}.{}", if neg { "-" } else { "" }, if a.is_empty() { "0" } else { a }, b)
}

/// first path where the two values differ (null == absent; numbers compared as decimals)
fn diff(a: &Value, b: &Value, path: &str) -> Option<String> {
    match (a, b) {
        (Value::Null, Value::Null) => None,
        (Value::Number(x), Value::Number(y)) => if num_key(x) == num_key(y) { None } else { Some(format!("{} ({} vs {})", path, x, y)) },
        (Value::Object(x), Value::Object(y)) => {
            let keys: std::collections::BTreeSet<&String> = x.keys().chain(y.keys()).collect();
            for k in keys {
                let (va, vb) = (x.get(k).unwrap_or(&Value::Null), y.get(k).unwrap_or(&Value::Null));
                if let Some(d) = diff(va, vb, &format!("{}.{}", path, k)) { return Some(d); }
            }
            None
        }
        (Value::Array(x), Value::Array(y)) => {
            if x.len() != y.len() { return Some(format!("{} (array length {} vs {})", path, x.len(), y.len())); }
            for (i, (va, vb)) in x.iter().zip(y.iter()).enumerate() {
                if let Some(d) = diff(va, vb, &format!("{}[{}]", path, i)) { return Some(d); }
            }
            None
        }
        // an object whose members are all null is as good as absent
        (Value::Object(x), Value::Null) | (Value::Null, Value::Object(x)) => if x.values().all(|v| v.is_null()) { None } else { Some(format!("{} (present vs absent)", path)) },
        (Value::Array(x), Value::Null) | (Value::Null, Value::Array(x)) => if x.is_empty() { None } else { Some(format!("{} (present vs absent)", path)) },
        _ => if a == b { None } else { Some(format!("{} ({} vs {})", path, a.to_string().chars().take(40).collect::<String>(), b.to_string().chars().take(40).collect::<String>())) },
    }
}

/// does `expr` (following `var` references) contain a fake that yields free text of unbounded length?
fn free_text(expr: &Value, vars: &Value, depth: usize) -> bool {
    match expr {
        Value::Object(o) => {
            if let Some(f) = o.get("fake") {
                return matches!(f.get(0).and_then(|x| x.as_str()), Some("street_address") | Some("company_name") | Some("city_name") | Some("sentence"));
            }
            if let Some(v) = o.get("var").and_then(|v| v.as_str()) {
                return depth < 5 && free_text(&vars[v], vars, depth + 1);
            }
            o.values().any(|x| free_text(x, vars, depth))
        }
        Value::Array(a) => a.iter().any(|x| free_text(x, vars, depth)),
        _ => false,
    }
}

/// paths (below `schema`) of the leaves `{"substr": [free text, 0, N]}` with their N
fn substr_leaves(v: &Value, vars: &Value, path: &mut Vec<String>, out: &mut Vec<(Vec<String>, usize)>) {
    match v {
        Value::Object(o) => {
            if o.len() == 1 && o.contains_key("substr") {
                let a = &o["substr"];
                if a[1].as_u64() == Some(0) && free_text(&a[0], vars, 0) {
                    if let Some(n) = a[2].as_u64() { out.push((path.clone(), n as usize)); }
                }
                return;
            }
            for (k, x) in o { path.push(k.clone()); substr_leaves(x, vars, path, out); path.pop(); }
        }
        Value::Array(a) => for (i, x) in a.iter().enumerate() { path.push(i.to_string()); substr_leaves(x, vars, path, out); path.pop(); },
        _ => {}
    }
}

fn leaf_mut<'a>(v: &'a mut Value, path: &[String]) -> Option<&'a mut Value> {
    let mut cur = v;
    for p in path {
        cur = match cur {
            Value::Array(a) => a.get_mut(p.parse::<usize>().ok()?)?,
            Value::Object(o) => o.get_mut(p)?,
            _ => return None,
        };
    }
    Some(cur)
}

/// the four stages through the typed API; same events as the plugin route
fn typed_route<T: swift_mt_message::traits::SwiftMessageBody + serde::de::DeserializeOwned>(mt: &str, name: &str, cfg: &swift_mt_message::scenario_config::ScenarioConfig) -> (Vec<Value>, Value, String) {
    let mut evs: Vec<Value> = Vec::new();
    let m: swift_mt_message::SwiftMessage<T> = match swift_mt_message::sample::generate_sample_with_config::<T>(mt, Some(name), cfg) {
        Ok(m) => { evs.push(json!({"e": "generate", "ok": true})); m }
        Err(e) => { evs.push(json!({"e": "generate", "ok": false, "err": e.to_string().chars().take(200).collect::<String>()})); return (evs, Value::Null, String::new()); }
    };
    let generated = serde_json::to_value(&m).unwrap_or(Value::Null);
    let text = m.to_mt_message();
    let b4 = text.find("{4:").and_then(|s| text[s + 3..].find("\n-}").map(|e| text[s + 3..s + 3 + e + 1].to_string())).unwrap_or_default();
    let toks: Vec<String> = tok::tokenize(&b4).tokens.iter().map(|t| t.tag.clone()).collect();
    evs.push(json!({"e": "publish", "ok": true, "toks": toks}));
    let vr = m.validate();
    evs.push(json!({"e": "validate", "ok": true, "valid": vr.is_valid, "n": vr.errors.len(), "first": vr.errors.first().map(|e| e.to_string().chars().take(40).collect::<String>()).unwrap_or_default()}));
    match swift_mt_message::parser::SwiftParser::parse::<T>(&text) {
        Ok(m2) => {
            let parsed = serde_json::to_value(&m2).unwrap_or(Value::Null);
            let d = diff(&generated, &parsed, "$");
            evs.push(json!({"e": "parse", "ok": true, "equal": d.is_none(), "where": d.unwrap_or_default().chars().take(90).collect::<String>()}));
        }
        Err(e) => evs.push(json!({"e": "parse", "ok": false, "equal": false, "where": e.to_string().chars().take(90).collect::<String>()})),
    }
    (evs, generated, text)
}

pub fn run(args: &[String]) -> i32 {
    let root_default = format!("{}/test_scenarios", crate::util::repo_root());
    let root = arg(args, "--scenarios").unwrap_or(&root_default);
    let draws: usize = arg(args, "--draws").and_then(|s| s.parse().ok()).unwrap_or(5);
    let traces = arg(args, "--traces").expect("--traces");
    let out_path = arg(args, "--out").expect("--out");
    let artefacts = arg(args, "--artefacts").expect("--artefacts");
    let _ = std::fs::create_dir_all(artefacts);
    let mut w = std::io::BufWriter::new(std::fs::File::create(traces).expect("traces"));
    let mut files: Vec<(String, std::path::PathBuf)> = Vec::new();
    let mut dirs: Vec<_> = std::fs::read_dir(root).expect("scenarios").filter_map(|e| e.ok()).filter(|e| e.path().is_dir()).collect();
    dirs.sort_by_key(|e| e.path());
    for d in dirs {
        let mt = d.file_name().to_string_lossy().to_uppercase();
        let mut fs: Vec<_> = std::fs::read_dir(d.path()).unwrap().filter_map(|e| e.ok()).map(|e| e.path())
            .filter(|p| p.extension().map(|x| x == "json").unwrap_or(false) && p.file_stem().map(|s| s != "index").unwrap_or(false)).collect();
        fs.sort();
        for f in fs { files.push((mt.clone(), f)); }
    }
    let mut id = 0usize;
    let mut runs = 0u64;
    let mut boundary_runs = 0u64;
    let mut typed_runs = 0u64;
    let typed_draws: usize = arg(args, "--typed-draws").and_then(|s| s.parse().ok()).unwrap_or(2);
    let mut samples: Vec<Value> = Vec::new();
    let mut index: Vec<Value> = Vec::new();
    for (mt, path) in &files {
        let schema: Value = match std::fs::read_to_string(path).ok().and_then(|s| serde_json::from_str(&s).ok()) { Some(v) => v, None => continue };
        let scenario = format!("{}/{}", mt.to_lowercase(), path.file_stem().unwrap().to_string_lossy());
        let mut leaves: Vec<(Vec<String>, usize)> = Vec::new();
        substr_leaves(&schema["schema"], &schema["variables"], &mut Vec::new(), &mut leaves);
        // draw number `draws` is the boundary draw: every free-text leaf cut by substr(0, N) comes out
        // of its generator with at least N characters (a rare but possible draw), so it is exactly N long
        // draw `draws`: every such leaf exactly N long; draw `draws + 1`: the same with the cut falling right
        // after a blank (the last kept character is a space)
        for draw in 0..=(draws + 1) {
            let boundary = draw >= draws;
            let cut_after_blank = draw == draws + 1;
            if boundary && leaves.is_empty() { continue; }
            id += 1;
            runs += 1;
            if boundary { boundary_runs += 1; }
            let code = mt.trim_start_matches("MT").to_string();
            let scenario = if cut_after_blank { format!("{}#cut-after-blank", scenario) } else if boundary { format!("{}#longest-texts", scenario) } else { scenario.clone() };
            let mut evs: Vec<Value> = vec![json!({"e": "begin", "id": id, "scenario": scenario, "mt": code})];
            let r = guarded(|| {
                let mut evs: Vec<Value> = Vec::new();
                let mut msg = Message::from_value(&schema);
                msg.data_mut().as_object_mut().unwrap().insert("message_type".into(), json!(mt));
                let g = run_plugin_on("generate_mt", &mut msg, json!({"target": "sample_json"}));
                evs.push(json!({"e": "generate", "ok": g.ok}));
                if !g.ok { return (evs, Value::Null, String::new()); }
                if boundary {
                    let mut sj = msg.data()["sample_json"].clone();
                    let inner_is_wrapped = sj.get("json_data").is_some();
                    for (path, n) in &leaves {
                        let root = if inner_is_wrapped { sj.get_mut("json_data").unwrap() } else { &mut sj };
                        if let Some(leaf) = leaf_mut(root, path) {
                            if let Some(txt) = leaf.as_str() {
                                let have = txt.chars().count();
                                if have < *n {
                                    let mut padded = format!("{}{}", txt, "abcdefghij".chars().cycle().take(*n - have).collect::<String>());
                                    if cut_after_blank { padded.pop(); padded.push(' '); }
                                    *leaf = json!(padded);
                                } else if cut_after_blank && have == *n && *n > 1 {
                                    let mut t: String = txt.chars().take(*n - 1).collect();
                                    t.push(' ');
                                    *leaf = json!(t);
                                }
                            }
                        }
                    }
                    msg.data_mut().as_object_mut().unwrap().insert("sample_json".into(), sj);
                }
                let generated = msg.data()["sample_json"].clone();
                let p = run_plugin_on("publish_mt", &mut msg, json!({"source": "sample_json", "target": "sample_mt"}));
                let text = msg.data()["sample_mt"].as_str().unwrap_or("").to_string();
                let b4 = text.find("{4:").and_then(|s| text[s + 3..].find("\n-}").map(|e| text[s + 3..s + 3 + e + 1].to_string())).unwrap_or_default();
                let toks: Vec<String> = tok::tokenize(&b4).tokens.iter().map(|t| t.tag.clone()).collect();
                evs.push(json!({"e": "publish", "ok": p.ok, "toks": toks}));
                if !p.ok { return (evs, generated, text); }
                let v = run_plugin_on("validate_mt", &mut msg, json!({"source": "sample_mt", "target": "validation_result"}));
                let vr = msg.data()["validation_result"].clone();
                let errs = vr["errors"].as_array().cloned().unwrap_or_default();
                evs.push(json!({"e": "validate", "ok": v.ok, "valid": vr["valid"].as_bool().unwrap_or(false), "n": errs.len(),
                                "first": errs.first().and_then(|e| e.as_str()).unwrap_or("").chars().take(80).collect::<String>()}));
                if !v.ok { return (evs, generated, text); }
                let q = run_plugin_on("parse_mt", &mut msg, json!({"source": "sample_mt", "target": "mt_json"}));
                let parsed = msg.data()["mt_json"].clone();
                let gen_inner = generated.get("json_data").cloned().unwrap_or(generated.clone());
                let d = if q.ok { diff(&gen_inner, &parsed, "$") } else { None };
                evs.push(json!({"e": "parse", "ok": q.ok, "equal": q.ok && d.is_none(), "where": d.clone().unwrap_or_default().chars().take(90).collect::<String>()}));
                (evs, gen_inner, text)
            });
            match r {
                Ok((mut e2, generated, text)) => {
                    let failed = e2.iter().any(|e| e["ok"] == false || e["equal"] == false || e["valid"] == false);
                    evs.append(&mut e2);
                    if failed || (samples.len() < 2 && draw == 0) || (samples.len() < 3 && boundary) {
                        let art = format!("{}/{}.json", artefacts, id);
                        let _ = std::fs::write(&art, json!({"scenario": scenario, "generated": generated, "published": text, "events": evs}).to_string());
                        index.push(json!({"id": id, "scenario": scenario, "artefact": art}));
                        if samples.len() < 3 { samples.push(json!({"scenario": scenario, "published": text})); }
                    }
                }
                Err(p) => {
                    evs.push(json!({"e": "generate", "ok": false, "panic": p}));
                }
            }
            evs.push(json!({"e": "end"}));
            for e in evs { let _ = writeln!(w, "{}", e); }
        }
        // ---- the typed sample API on the same scenario file: generate_sample_with_config::<T>(type, name) is the
        //      second way from a scenario to a message (its own copy of "find the file, draw, read the JSON"); the
        //      same four stages, through the typed functions: sample -> to_mt_message -> validate -> parse
        for _ in 0..typed_draws {
            id += 1;
            runs += 1;
            typed_runs += 1;
            let code = mt.trim_start_matches("MT").to_string();
            let name = path.file_stem().unwrap().to_string_lossy().to_string();
            let label = format!("{}@typed-api", scenario);
            let mut evs: Vec<Value> = vec![json!({"e": "begin", "id": id, "scenario": label, "mt": code})];
            let cfg = swift_mt_message::scenario_config::ScenarioConfig::with_paths(vec![std::path::PathBuf::from(root)]);
            let r = guarded(|| with_mt!(code.as_str(), T => typed_route::<T>(mt, &name, &cfg), else (vec![json!({"e": "generate", "ok": false})], Value::Null, String::new())));
            match r {
                Ok((mut e2, generated, text)) => {
                    let failed = e2.iter().any(|e| e["ok"] == false || e["equal"] == false || e["valid"] == false);
                    evs.append(&mut e2);
                    if failed {
                        let art = format!("{}/{}.json", artefacts, id);
                        let _ = std::fs::write(&art, json!({"scenario": label, "generated": generated, "published": text, "events": evs}).to_string());
                        index.push(json!({"id": id, "scenario": label, "artefact": art}));
                    }
                }
                Err(p) => evs.push(json!({"e": "generate", "ok": false, "panic": p})),
            }
            evs.push(json!({"e": "end"}));
            for e in evs { let _ = writeln!(w, "{}", e); }
        }
    }
    let _ = w.flush();
    std::fs::write(out_path, json!({"scenario_files": files.len(), "runs": runs, "draws": draws, "boundary_draws": boundary_runs, "typed_api_runs": typed_runs, "samples": samples, "artefacts": index}).to_string()).expect("write");
    0
}
