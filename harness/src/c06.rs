//! C06: amounts and rates — only decimals are accepted, and their value survives
//! MT and JSON serialisation exactly.

use crate::registry::parse_by_tag;
use crate::util::*;
use serde_json::{Value, json};
use std::collections::BTreeMap;
use std::io::BufRead;

/// (tag, prefix, suffix) around the amount; {C} = currency
fn template(tag: &str) -> (&'static str, &'static str) {
    match tag {
        "19" | "36" => ("", ""),
        "32A" | "32C" | "32D" => ("240719{C}", ""),
        "32B" | "33B" | "71F" | "71G" => ("{C}", ""),
        "34F" => ("{C}D", ""),
        "37H" => ("C", ""),
        "37HN" => ("CN", ""),
        "60F" | "60M" | "62F" | "62M" | "64" | "65" => ("C240719{C}", ""),
        "61" => ("240719D", "NTRFREF123456"),
        "90C" | "90D" => ("5{C}", ""),
        _ => ("", ""),
    }
}

fn currency_for(prec: u64) -> &'static str {
    match prec { 0 => "JPY", 3 => "BHD", 4 => "CLF", _ => "USD" }
}

fn int_digits(n: usize) -> String {
    // leading digit non-zero, last digit non-zero
    const PAT: &str = "1234567891234567891234";
    PAT[..n].to_string()
}
fn frac_digits(f: usize) -> String {
    const PAT: &str = "06251379284";
    if f == 0 { String::new() } else { let mut s = PAT[..f].to_string(); s.pop(); s.push('5'); s }
}

fn spell(sp: &str, n: usize, f: usize) -> String {
    let i = int_digits(n);
    let fr = frac_digits(f);
    match sp {
        "canon" => format!("{},{}", i, fr),
        "dot" => format!("{}.{}", i, fr),
        "nocomma" => i,
        "tiny" => format!("0,{}5", "0".repeat(f.saturating_sub(1))),
        "plus" => format!("+{},{}", i, fr),
        "minus" => format!("-{},{}", i, fr),
        "exp" => "1e3".into(),
        "nan" => "NaN".into(),
        "inf" => "inf".into(),
        "infinity" => "infinity".into(),
        "twosep" => format!("{},{},5", if i.is_empty() { "1".to_string() } else { i }, if fr.is_empty() { "2".to_string() } else { fr }),
        "space" => format!("{} ,{}", i, fr),
        "hex" => "0x10".into(),
        _ => String::new(),
    }
}

/// exact decimal -> canonical (int without leading zeros, frac without trailing zeros)
fn canon_decimal(s: &str) -> Option<(String, String)> {
    let s = s.trim();
    // handle exponent form printed by serde_json for large/small floats
    let (mant, exp) = match s.find(|c| c == 'e' || c == 'E') {
        Some(p) => (&s[..p], s[p + 1..].parse::<i32>().ok()?),
        None => (s, 0),
    };
    let mant = mant.replace(',', ".");
    let (ip, fp) = match mant.find('.') { Some(p) => (mant[..p].to_string(), mant[p + 1..].to_string()), None => (mant.clone(), String::new()) };
    if !ip.chars().all(|c| c.is_ascii_digit()) || !fp.chars().all(|c| c.is_ascii_digit()) || (ip.is_empty() && fp.is_empty()) {
        return None;
    }
    let mut digits = format!("{}{}", ip, fp);
    let mut point = ip.len() as i32 + exp;
    if point < 0 { digits = format!("{}{}", "0".repeat((-point) as usize), digits); point = 0; }
    if point as usize > digits.len() { digits.push_str(&"0".repeat(point as usize - digits.len())); }
    let (a, b) = digits.split_at(point as usize);
    let a = a.trim_start_matches('0');
    let b = b.trim_end_matches('0');
    Some((if a.is_empty() { "0".to_string() } else { a.to_string() }, b.to_string()))
}

fn numbers_in(v: &Value, out: &mut Vec<String>) {
    match v {
        Value::Number(n) => out.push(n.to_string()),
        Value::Array(a) => a.iter().for_each(|x| numbers_in(x, out)),
        Value::Object(o) => o.values().for_each(|x| numbers_in(x, out)),
        _ => {}
    }
}

pub fn run(args: &[String]) -> i32 {
    let cases = arg(args, "--cases").expect("--cases");
    let out_path = arg(args, "--out").expect("--out");
    let f = std::io::BufReader::new(std::fs::File::open(cases).expect("cases"));
    let mut evaluated = 0u64;
    let mut accepted_cases = 0u64;
    let mut violations: BTreeMap<String, (u64, Value)> = BTreeMap::new();
    let mut panics: BTreeMap<String, u64> = BTreeMap::new();
    let mut samples: Vec<Value> = Vec::new();
    let mut c02: BTreeMap<String, (u64, Value)> = BTreeMap::new();
    let mut c02_evaluated = 0u64;
    for line in f.lines().map_while(|l| l.ok()) {
        let c: Value = match serde_json::from_str(&line) { Ok(v) => v, Err(_) => continue };
        let ftag = c["f"].as_str().unwrap_or("");
        // "37HN" = field 37H written with its sign letter N: the value is the negative of the digits
        let tag = if ftag == "37HN" { "37H" } else { ftag };
        let signed = ftag == "37HN";
        let sp = c["sp"].as_str().unwrap_or("");
        let n = c["n"].as_u64().unwrap_or(0) as usize;
        let fr = c["fr"].as_u64().unwrap_or(0) as usize;
        let prec = c["prec"].as_u64().unwrap_or(2);
        let want = c["accept"].as_bool().unwrap_or(false);
        let amount = spell(sp, n, fr);
        let (pre, suf) = template(ftag);
        let code = c["code"].as_str().unwrap_or("");
        let cur = if code.is_empty() { currency_for(prec) } else { code };
        let content = format!("{}{}{}", pre.replace("{C}", cur), amount, suf);
        evaluated += 1;
        let replay = json!({"kind": "amount", "case": c, "tag": tag, "content": content});
        let mut hit = |sig: String| { let e = violations.entry(sig).or_insert((0, replay.clone())); e.0 += 1; };
        let digits_class = if !code.is_empty() { format!("currency={}", code) } else if n == 0 { "n=0".to_string() } else if n + 1 + fr > c["maxlen"].as_u64().unwrap_or(15) as usize { "too-long".into() } else if c["cur"].as_bool().unwrap_or(false) && fr as u64 > prec { format!("frac>{}", prec) } else { "fits".into() };
        match guarded(|| parse_by_tag(tag, &content)) {
            Err(p) => { *panics.entry(format!("C06|Field{}|panic|{}", ftag, p.split(':').next().unwrap_or(""))).or_insert(0) += 1; }
            Ok(None) => {}
            Ok(Some(Err(_))) => {
                if want { hit(format!("C06|Field{}|decimal-rejected|sp={}|prec={}|{}", ftag, sp, prec, digits_class)); }
            }
            Ok(Some(Ok(o))) => {
                if !want {
                    hit(format!("C06|Field{}|non-decimal-accepted|sp={}|{}", ftag, sp, digits_class));
                    continue;
                }
                accepted_cases += 1;
                let expect = canon_decimal(&amount);
                // MT: the re-serialised text carries the same value
                let body = o.ser.splitn(3, ':').nth(2).unwrap_or("").to_string();
                let pre_c = pre.replace("{C}", cur);
                let ser_amount = body.strip_prefix(pre_c.as_str()).map(|r| r.strip_suffix(suf).unwrap_or(r).to_string());
                match ser_amount.as_deref().and_then(canon_decimal) {
                    Some(v) if Some(&v) == expect.as_ref() => {}
                    _ => hit(format!("C06|Field{}|value-changed|mt|prec={}|frac={}", ftag, prec, fr)),
                }
                // ... and is itself accepted again, with the same value
                let body_content = body.clone();
                match guarded(|| parse_by_tag(tag, &body_content)) {
                    Ok(Some(Ok(o2))) => {
                        // (C02 on the same family: the second parse equals the first, the text is a fixed point)
                        c02_evaluated += 1;
                        if o2.json != o.json {
                            let e = c02.entry(format!("C02|Field{}|value-changed|amount:prec={}|frac={}", ftag, prec, fr)).or_insert((0, replay.clone()));
                            e.0 += 1;
                        } else if o2.ser != o.ser {
                            let e = c02.entry(format!("C02|Field{}|not-fixed-point|amount:prec={}|frac={}", ftag, prec, fr)).or_insert((0, replay.clone()));
                            e.0 += 1;
                        }
                        let mut n2 = Vec::new();
                        numbers_in(&o2.json, &mut n2);
                        if signed { n2 = n2.iter().map(|x| x.trim_start_matches('-').to_string()).collect(); }
                        if !n2.iter().any(|x| canon_decimal(x).as_ref() == expect.as_ref()) {
                            hit(format!("C06|Field{}|value-changed|reparse|prec={}|frac={}", ftag, prec, fr));
                        }
                    }
                    Ok(Some(Err(_))) => {
                        c02_evaluated += 1;
                        let e = c02.entry(format!("C02|Field{}|reparse-rejected|amount:sp={}|prec={}|{}", ftag, sp, prec, digits_class)).or_insert((0, replay.clone()));
                        e.0 += 1;
                        hit(format!("C06|Field{}|serialised-amount-refused|sp={}|prec={}|{}", ftag, sp, prec, digits_class))
                    }
                    _ => {}
                }
                // JSON: a finite, non-negative number with the same value
                let mut nums = Vec::new();
                numbers_in(&o.json, &mut nums);
                if signed { nums = nums.iter().map(|x| x.trim_start_matches('-').to_string()).collect(); }
                if !nums.iter().any(|x| canon_decimal(x).as_ref() == expect.as_ref()) {
                    hit(format!("C06|Field{}|value-changed|json|prec={}|frac={}|n={}", ftag, prec, fr, if n >= 14 { "14+" } else { "<14" }));
                }
                // JSON round trip reproduces the MT text
                match &o.via_json {
                    Ok((s2, _, _)) if s2 == &o.ser => {}
                    _ => hit(format!("C06|Field{}|json-roundtrip-differs|prec={}", ftag, prec)),
                }
                if samples.len() < 4 && n >= 12 { samples.push(json!({"tag": tag, "content": content, "ser": o.ser, "json": o.json})); }
            }
        }
    }
    let violations: Vec<Value> = violations.iter().map(|(sig, (n, r))| json!({"sig": sig, "count": n, "replay": r})).collect();
    let c02v: Vec<Value> = c02.iter().map(|(sig, (n, r))| json!({"sig": sig, "count": n, "replay": r})).collect();
    std::fs::write(out_path, json!({"evaluated": evaluated, "accepted_and_compared": accepted_cases, "violations": violations, "c02_violations": c02v, "c02_evaluated": c02_evaluated,
        "panics_noted_for_C07": panics, "samples": samples}).to_string()).expect("write");
    0
}
