//! Reference tokeniser for block-4 text (the executable twin of `Tok` in spec/Tokens.tla).
//!
//! A block-4 text is a sequence of lines (separated by LF or CRLF). A line that starts
//! with `:` + two digits + optional upper-case letter + `:` opens a field; every other
//! line up to the next such line continues the field's content. A line consisting of `-`
//! alone ends the block. Blank lines before the first field are skipped; any other text
//! before the first field is reported as junk.

#[derive(Debug, Clone, PartialEq)]
pub struct Token {
    pub tag: String,
    pub content: String,
    /// byte offset of the opening ':' in the original text
    pub start: usize,
    /// byte offset one past the field (start of the next field's ':' or of the terminator/end)
    pub end: usize,
}

#[derive(Debug, Clone, Default)]
pub struct Tokenised {
    pub tokens: Vec<Token>,
    pub junk: bool,
    pub terminated: bool,
}

/// The field-map API also documents numbered tags (`:50#1:`, `:50L#2:`): digits after a '#', after the
/// optional option letter. Returns Some(len of the marker) if `line` opens a field in that wider sense.
pub fn tag_prefix_numbered(line: &str) -> Option<usize> {
    if let Some(n) = tag_prefix(line) {
        return Some(n);
    }
    let b = line.as_bytes();
    if b.len() < 6 || b[0] != b':' || !b[1].is_ascii_digit() || !b[2].is_ascii_digit() {
        return None;
    }
    let mut i = 3;
    if b[i].is_ascii_uppercase() {
        i += 1;
    }
    if i >= b.len() || b[i] != b'#' {
        return None;
    }
    i += 1;
    let d0 = i;
    while i < b.len() && b[i].is_ascii_digit() {
        i += 1;
    }
    if i > d0 && i < b.len() && b[i] == b':' { Some(i + 1) } else { None }
}

/// Returns Some(len of ":TAG:") if `line` opens a field.
pub fn tag_prefix(line: &str) -> Option<usize> {
    let b = line.as_bytes();
    if b.len() >= 4 && b[0] == b':' && b[1].is_ascii_digit() && b[2].is_ascii_digit() {
        if b[3] == b':' {
            return Some(4);
        }
        if b.len() >= 5 && b[3].is_ascii_uppercase() && b[4] == b':' {
            return Some(5);
        }
    }
    None
}

pub fn tokenize(text: &str) -> Tokenised {
    tokenize_opt(text, false)
}

/// `numbered`: numbered tags open a field as well (the public field-map API's reading)
pub fn tokenize_opt(text: &str, numbered: bool) -> Tokenised {
    let mut out = Tokenised::default();
    // split into (start offset, line without terminator, offset after terminator)
    let mut lines: Vec<(usize, &str, usize)> = Vec::new();
    let bytes = text.as_bytes();
    let mut i = 0usize;
    while i <= bytes.len() {
        let start = i;
        let mut j = i;
        while j < bytes.len() && bytes[j] != b'\n' {
            j += 1;
        }
        let mut line_end = j;
        if line_end > start && bytes[line_end - 1] == b'\r' {
            line_end -= 1;
        }
        let next = if j < bytes.len() { j + 1 } else { j };
        lines.push((start, &text[start..line_end], next));
        if j >= bytes.len() {
            break;
        }
        i = j + 1;
    }
    let mut cur: Option<(String, Vec<&str>, usize)> = None;
    let mut last_end = 0usize;
    for (start, line, next) in lines {
        if line == "-" && cur.is_none() {
            out.junk = true; // a dash before the first field is just junk
            last_end = next;
            continue;
        }
        if line == "-" {
            // block terminator
            if let Some((tag, parts, s)) = cur.take() {
                out.tokens.push(finish(tag, parts, s, start));
            }
            out.terminated = true;
            return out;
        }
        if let Some(plen) = if numbered { tag_prefix_numbered(line) } else { tag_prefix(line) } {
            if let Some((tag, parts, s)) = cur.take() {
                out.tokens.push(finish(tag, parts, s, start));
            }
            let tag = line[1..plen - 1].to_string();
            cur = Some((tag, vec![&line[plen..]], start));
        } else if let Some((_, parts, _)) = cur.as_mut() {
            parts.push(line);
        } else if !line.trim().is_empty() {
            out.junk = true;
        }
        last_end = next;
    }
    if let Some((tag, parts, s)) = cur.take() {
        out.tokens.push(finish(tag, parts, s, last_end.max(text.len())));
    }
    out
}

fn finish(tag: String, mut parts: Vec<&str>, start: usize, end: usize) -> Token {
    while parts.len() > 1 && parts.last().map(|l| l.trim().is_empty()).unwrap_or(false) {
        parts.pop();
    }
    Token {
        tag,
        content: parts.join("\n").trim_end().to_string(),
        start,
        end,
    }
}

/// Map a byte offset of the text to a token index (1-based) such that the offset lies in
/// the "before token i" gap: i.e. every token j < i ends at or before `off` and only white
/// space lies between `off` and the start of token i. Returns Err(j) if `off` is strictly
/// inside token j (after its first byte).
pub fn offset_to_index(text: &str, toks: &[Token], off: usize) -> Result<usize, usize> {
    for (i, t) in toks.iter().enumerate() {
        if off <= t.start {
            if text.get(off..t.start).map(|g| g.trim().is_empty()).unwrap_or(false) {
                return Ok(i + 1);
            }
            // non-white text between off and the token start: off is inside previous token
            return Err(i);
        }
        if off < t.end {
            // inside token i+1: tolerate if the rest up to its end is white space only
            if text.get(off..t.end).map(|g| g.trim().is_empty()).unwrap_or(false) {
                continue;
            }
            return Err(i + 1);
        }
    }
    Ok(toks.len() + 1)
}

#[cfg(test)]
mod tests {
    use super::*;
    #[test]
    fn basic() {
        let t = tokenize("\r\n:20:REF\r\n:50K:/1\r\nJOHN\r\n:71A:OUR\r\n-");
        assert_eq!(t.tokens.len(), 3);
        assert_eq!(t.tokens[1].tag, "50K");
        assert_eq!(t.tokens[1].content, "/1\nJOHN");
        assert!(t.terminated && !t.junk);
        let text = "\r\n:20:REF\r\n:50K:/1\r\nJOHN\r\n:71A:OUR\r\n";
        let tk = tokenize(text).tokens;
        assert_eq!(offset_to_index(text, &tk, 0), Ok(1));
        assert_eq!(offset_to_index(text, &tk, 2), Ok(1));
        assert_eq!(offset_to_index(text, &tk, 11), Ok(2));
        assert_eq!(offset_to_index(text, &tk, 12), Ok(2));
        assert_eq!(offset_to_index(text, &tk, 14), Err(2));
        assert_eq!(offset_to_index(text, &tk, text.len()), Ok(4));
    }
}
