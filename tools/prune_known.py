"""one-off maintenance helper (never used by a check): drop `known` entries of one property that no longer
fire in any of the given check logs, and report them so that a `fixed:` entry can be written by hand.
usage: prune_known.py <property> <log>..."""
import fnmatch
import json
import os
import re
import sys

V = os.path.dirname(os.path.dirname(os.path.abspath(__file__)))
prop, logs = sys.argv[1], sys.argv[2:]
fired = set()
for lg in logs:
    for line in open(lg, errors="replace"):
        m = re.match(r"KNOWN-FINDING: property=%s (\S.*?) -- " % prop, line)
        if m:
            fired.add(m.group(1))
p = os.path.join(V, "known_findings.json")
d = json.load(open(p))
keep, dropped = [], []
for f in d["findings"]:
    if f["property"] == prop and f["status"] == "known" and f["signature"] not in fired:
        dropped.append(f)
    else:
        keep.append(f)
d["findings"] = keep
json.dump(d, open(p, "w"), indent=1, ensure_ascii=False)
print("fired", len(fired), "dropped", len(dropped))
for f in dropped[:400]:
    print("  -", f["signature"])
