"""./check setup: parse every specification module, build the harness, check the contents table."""
import glob
import os
import subprocess

from common import SPEC, HARNESS, ToolError, build_harness, log, workdir


def run():
    wd = workdir("setup")
    bad = []
    for tla in sorted(glob.glob(os.path.join(SPEC, "*.tla"))):
        r = subprocess.run(["tla-sany", os.path.basename(tla)], cwd=SPEC, stdout=subprocess.PIPE, stderr=subprocess.STDOUT, text=True)
        if r.returncode != 0 or "Semantic errors" in r.stdout or "*** Errors" in r.stdout or "Parse Error" in r.stdout:
            bad.append(os.path.basename(tla))
            log(r.stdout[-1500:])
    if bad:
        raise ToolError("SANY rejects: " + ", ".join(bad))
    log("setup: %d specification modules parse" % len(glob.glob(os.path.join(SPEC, "*.tla"))))
    secs = build_harness()
    log("setup: harness built in %.0fs" % secs)
    r = subprocess.run([HARNESS, "fieldcheck"], stdout=subprocess.PIPE, stderr=subprocess.DEVNULL, text=True)
    notes = [l for l in r.stdout.splitlines() if l.startswith("{")]
    log("setup: contents table pre-validation: %d entries set aside (C05 matters, not used at message level)" % len(notes))
    return 0
