#!/bin/bash
# usage: seedcheck.sh <seed-id> <patch.diff> <demo.rs> <property> [more properties...]
# 1. confirms in a scratch worktree that the patch compiles, the existing suite passes with it,
#    and the demo fails with / passes without it;
# 2. applies the patch to /repo, runs the quick check of each property, undoes the patch.
set -u
ID=$1; PATCH=$(realpath $2); DEMO=$(realpath $3); shift 3
WT=/tmp/wt_verify
if [ ! -d $WT ]; then git -C /repo worktree add -q --detach $WT HEAD || exit 2; fi
cd $WT && git checkout -q --detach $(git -C /repo rev-parse HEAD) && git checkout -q -- . && git clean -qfd tests
echo "== [$ID] scratch verification in $WT"
git apply $PATCH || { echo "PATCH DOES NOT APPLY"; exit 2; }
SUITE=$(cargo test --workspace --no-fail-fast --offline 2>&1 | grep -E "^test result" | tr '\n' ' ')
echo "suite with patch: $SUITE"
cp $DEMO tests/demo_seed.rs
WITH=$(cargo test --offline --test demo_seed 2>&1 | grep -E "^test result" | tr '\n' ' ')
echo "demo with patch:  $WITH"
git checkout -q -- src
WITHOUT=$(cargo test --offline --test demo_seed 2>&1 | grep -E "^test result" | tr '\n' ' ')
echo "demo w/o patch:   $WITHOUT"
rm -f tests/demo_seed.rs
echo "== [$ID] checks against /repo with the patch applied"
cd /repo && git apply $PATCH || { echo "PATCH DOES NOT APPLY TO /repo"; exit 2; }
for P in "$@"; do
  OUT=$(cd /verif && ./check $P quick 2>&1); RC=$?
  echo "check $P quick: exit=$RC  $(echo "$OUT" | grep -c '^VIOLATION') VIOLATION line(s)"
  echo "$OUT" | grep '^VIOLATION\|TOOL-ERROR' | head -5 | cut -c1-260
done
cd /repo && git checkout -q -- . && git status --short | head -3
echo "== [$ID] /repo restored"
