"""One function per property: runs its pipeline, turns the outcome into violations + evidence."""
import json
import os
import subprocess
import tempfile

import msglevel
from common import HARNESS, log, report, run_harness, ToolError

MSG_ASSUMPTIONS = [
    "reference layouts (spec/Layouts.tla) transcribed from the message structs, option enums and documented field order",
    "reference tokeniser (harness/src/tok.rs) as specified in spec/Tokens.tla",
    "concrete field contents from data/contents.json, each pre-validated stand-alone against its field parser on every run",
    "content policies: 0 = typical content, 1 = alternative contents (repeated tags get different contents), >= 2 = boundary-shaped "
    "contents (min / max lengths, absent optional parts, single line ...) drawn from the FieldFormats shape space",
    "bounds: walks with at most K optional elements present or all present, one non-default option per walk, "
    "sequence repetitions {min,1,2,cap,cap+1}; mutations as configured in the MC_MessageParse_*.cfg of the tier",
]


def _msg_cov(r, prop, rule, extra=None):
    s = r["summary"]
    p = s["props"][prop]
    cov = {
        "states": r["mc"]["distinct"] + r["trace"]["states"],
        "transitions": r["mc"]["generated"] + r["trace"]["generated"],
        "traces_validated_against_impl": s["traces"],
        "trace_events_explained": r["trace"]["lines"],
        "evaluations": p["evaluated"],
        "distinct_nontrivial": s["distinct_nontrivial"],
        "rule": rule,
        "samples": p["samples"][:6] or [{"note": "no case of this class generated"}],
        "tlc_behaviours": r["ncases"],
        "tlc_config": r["cfg"],
        "types_covered": sorted(s["per_type"].keys()),
        "notes": p["notes"],
        "content_table_notes": s["content_notes"][:20],
        "exhaustive": False,
    }
    if extra:
        cov.update(extra)
    return cov


RULE_MSG = ("cases = terminal states of the TLC exploration of spec/MessageParse.tla (walk generation x mutation x "
            "reference parse), each concretised and executed against the library; distinct = distinct (type, token "
            "sequence, mutation) triples; non-trivial = at least one optional element, non-default option, "
            "repetition mode or mutation")


def check_c01(tier, t0):
    r = msglevel.run_pipeline("C01", tier)
    vio = list(r["summary"]["props"]["C01"]["violations"])
    io_ids = set()
    for v in vio:
        io_ids.add(json.dumps(v["replay"].get("case", v["replay"]), sort_keys=True))
    # trace-derived: accepted runs that needed a deviation / did not take every field
    mech_count = {}
    for t in r["trace"]["results"]:
        if t["lossy"]:
            for m in t["mech"]:
                mech_count[m] = mech_count.get(m, 0) + 1
    trace_only = [t for t in r["trace"]["results"] if t["lossy"] and t["same"]]
    for t in trace_only:
        vio.append({"sig": "C01|MT%s|trace|mech=%s" % (t["mt"], "+".join(sorted(t["mech"]))),
                    "replay": {"trace_run_id": t["id"], "cases_file": os.path.join(r["wd"], "cases.ndjson")}})
    cov = _msg_cov(r, "C01", RULE_MSG, {"loss_mechanisms_seen_in_traces": mech_count,
                                        "layout_disagreements_noted": sum(1 for t in r["trace"]["results"]
                                                                          if t["res"] == "accepted" and t["walker"] != "accept")})
    return report("C01", tier, "model_checking", vio, cov, MSG_ASSUMPTIONS, t0)


def check_c03(tier, t0):
    r = msglevel.run_pipeline("C03", tier)
    vio = list(r["summary"]["props"]["C03"]["violations"])
    # every `valid` entry of data/contents.json is written in the library's canonical spelling of the documented
    # format: one that the field accepts but writes back differently is not "reproduced exactly" (and, being set
    # aside by the pre-validation, would otherwise be invisible at message level)
    for nt in table_notes():
        if nt.get("note", "").startswith("valid entry"):
            kind = "rejected" if "rejected by field parser" in nt["note"] else "not-reproduced"
            vio.append({"sig": "C03|Field%s|%s|table:%s" % (nt["tag"], kind, nt["content"][:24].replace("\n", "/")),
                        "replay": {"kind": "field", "tag": nt["tag"], "content": nt["content"], "serialised": nt.get("ser")}})
    # field level: the parsed value exposes every top-level component of the format as it was written (binding table
    # harness/src/comps.rs), for every in-language content of the FieldFormats shape space whose deviations change a
    # component's length, value or presence
    from common import workdir
    wd = workdir("C03-%s" % tier)
    cases, n, mcf, cfg = run_fieldformats(wd, tier)
    out = os.path.join(wd, "fields_out.json")
    run_harness(["fields", "--cases", cases, "--out", out])
    fs = json.load(open(out))
    vio += [{"sig": v["sig"], "replay": v["replay"]} for v in fs["c03_violations"]]
    log("[C03] field level: %d components of %d contents compared with the members of the parsed value, %d mismatch signatures" %
        (fs["c03_components"], fs["c03_evaluated"], len(fs["c03_violations"])))
    cov = _msg_cov(r, "C03", RULE_MSG + "; field level: per in-language content of the FieldFormats shape space (" + cfg + ") every "
                   "top-level component as written = the member of the parsed value bound to it (dates as calendar dates, amounts as decimals)")
    cov["states"] += mcf["distinct"]
    cov["transitions"] += mcf["generated"]
    cov["evaluations"] += fs["c03_components"]
    cov["field_level_components"] = fs["c03_components"]
    return report("C03", tier, "model_checking", vio, cov, MSG_ASSUMPTIONS, t0)


def check_c09(tier, t0):
    r = msglevel.run_pipeline("C09", tier)
    vio = r["summary"]["props"]["C09"]["violations"]
    return report("C09", tier, "model_checking", vio, _msg_cov(r, "C09", RULE_MSG), MSG_ASSUMPTIONS, t0)


def table_notes():
    """what the pre-validation of data/contents.json says about the entries it sets aside (they are not used
    at message level, so the defect they show would otherwise be masked)"""
    import subprocess
    from common import HARNESS
    r = subprocess.run([HARNESS, "fieldcheck"], stdout=subprocess.PIPE, stderr=subprocess.DEVNULL, text=True)
    notes = []
    for l in r.stdout.splitlines():
        if l.startswith("{"):
            try:
                notes.append(json.loads(l))
            except ValueError:
                pass
    return notes


def run_envelope(wd, tier):
    """Envelope.tla cases through the envelope harness (C10's own findings plus the C02 / C08 observations)"""
    from common import run_tlc, tlc_require_clean, extract_json_lines
    ecfg = "Envelope_thorough.cfg" if tier == "thorough" else "Envelope_quick.cfg"
    emc = run_tlc("Envelope.tla", ecfg, wd, timeout=1800)
    if emc["violated"]:
        raise ToolError("design-level invariant %s violated in Envelope.tla" % emc["violated"])
    tlc_require_clean(emc, "Envelope")
    ecases = os.path.join(wd, "envelope_cases.ndjson")
    extract_json_lines(emc["out_path"], ecases)
    os.remove(emc["out_path"])
    eout = os.path.join(wd, "envelope_out.json")
    run_harness(["envelope", "--cases", ecases, "--out", eout])
    return json.load(open(eout)), emc, ecfg


def check_c02(tier, t0):
    from common import workdir
    r = msglevel.run_pipeline("C02", tier)
    vio = list(r["summary"]["props"]["C02"]["violations"])
    # field level: every content of the FieldFormats shape space that a field parser accepts
    wd = workdir("C02-%s" % tier)
    cases, n, mc, cfg = run_fieldformats(wd, tier)
    out = os.path.join(wd, "fields_out.json")
    run_harness(["fields", "--cases", cases, "--out", out])
    s = json.load(open(out))
    vio += [{"sig": v["sig"], "replay": v["replay"]} for v in s["c02_violations"]]
    # contents-table entries (documented example contents) that a field accepts but writes back differently
    for nt in table_notes():
        kind = {"valid entry changes value on round trip": "value-changed", "valid entry serialises to text the field rejects": "reparse-rejected"}.get(nt.get("note"))
        if kind:
            vio.append({"sig": "C02|Field%s|%s|table:%s" % (nt["tag"], kind, nt["content"][:24].replace("\n", "/")),
                        "replay": {"kind": "field", "tag": nt["tag"], "content": nt["content"], "serialised": nt.get("ser")}})
    log("[C02] field level: %d accepted contents of %d field types re-parsed from their own serialisation, %d mismatch signatures" %
        (s["c02_evaluated"], s["fields"], len(s["c02_violations"])))
    # amount level: every accepted amount / rate text of Decimal.tla (all precision classes, all amount-bearing fields)
    from common import run_tlc, tlc_require_clean, extract_json_lines
    dcfg = "Decimal_thorough.cfg" if tier == "thorough" else "Decimal_quick.cfg"
    dmc = run_tlc("MC_Decimal.tla", dcfg, wd, timeout=1500)
    tlc_require_clean(dmc, "Decimal")
    dcases = os.path.join(wd, "amount_cases.ndjson")
    extract_json_lines(dmc["out_path"], dcases)
    os.remove(dmc["out_path"])
    dout = os.path.join(wd, "amounts_out.json")
    run_harness(["amounts", "--cases", dcases, "--out", dout])
    ds = json.load(open(dout))
    vio += [{"sig": v["sig"], "replay": v["replay"]} for v in ds["c02_violations"]]
    log("[C02] amount level: %d accepted amount texts re-parsed from their own serialisation, %d mismatch signatures" %
        (ds["c02_evaluated"], len(ds["c02_violations"])))
    # envelope level: every admitted header / trailer shape of Envelope.tla
    es, emc, ecfg = run_envelope(wd, tier)
    vio += [{"sig": v["sig"], "replay": v["replay"]} for v in es["c02_violations"]]
    log("[C02] envelope level: %d admitted header / trailer shapes re-parsed from their own serialisation, %d mismatches" %
        (es["c02_evaluated"], len(es["c02_violations"])))
    cov = _msg_cov(r, "C02", RULE_MSG + "; field level: every content of the FieldFormats shape space (" + cfg +
                   ") that the field's parser accepts, serialised, re-parsed and compared in value and text")
    cov["states"] += mc["distinct"]
    cov["transitions"] += mc["generated"]
    cov["evaluations"] += s["c02_evaluated"]
    cov["field_level_contents"] = s["c02_evaluated"]
    cov["states"] += emc["distinct"]
    cov["transitions"] += emc["generated"]
    cov["evaluations"] += es["c02_evaluated"]
    cov["envelope_level_shapes"] = es["c02_evaluated"]
    cov["states"] += dmc["distinct"]
    cov["transitions"] += dmc["generated"]
    cov["evaluations"] += ds["c02_evaluated"]
    cov["amount_level_texts"] = ds["c02_evaluated"]
    cov["rule"] += "; amount level: every accepted amount / rate text of Decimal.tla (" + dcfg + ") serialised, re-parsed and compared"
    cov["rule"] += "; envelope level: every admitted shape of Envelope.tla (" + ecfg + ") serialised, re-parsed and compared"
    return report("C02", tier, "model_checking", vio, cov, MSG_ASSUMPTIONS, t0)


CHECKS = {
    "C01": check_c01,
    "C02": check_c02,
    "C03": check_c03,
    "C09": check_c09,
}


def replay(prop, path):
    data = json.load(open(path))
    rp = data.get("replay") or {}
    if prop in ("C01", "C02", "C03", "C09") and "case" in rp:
        with tempfile.TemporaryDirectory() as td:
            cases = os.path.join(td, "cases.ndjson")
            with open(cases, "w") as f:
                f.write(json.dumps(rp["case"]) + "\n")
            out = os.path.join(td, "out.json")
            run_harness(["msg", "--cases", cases, "--out", out, "--policies", str(int(rp.get("policy", 0)) + 1)])
            s = json.load(open(out))
            vs = [v for v in s["props"][prop]["violations"] if v["sig"] == data.get("signature")]
            print(rp.get("text", ""))
            if vs:
                print("VIOLATION property=%s replay=%s  (%s reproduced)" % (prop, path, data.get("signature")))
                return 1
            print("not reproduced: %s" % data.get("signature"))
            return 0
    if prop == "C07" and rp.get("kind") in ("message", "field", "header", "json"):
        from common import HARNESS as HARNESS_BIN
        import subprocess
        r = subprocess.run([HARNESS_BIN, "total", "--one", path], capture_output=True, text=True)
        print(r.stdout)
        if r.returncode in (1, 42):
            print("VIOLATION property=%s replay=%s  (%s)" % (prop, path, data.get("signature")))
            return 1
        if r.returncode == 0:
            print("not reproduced: %s" % data.get("signature"))
            return 0
        raise ToolError("harness failed: %s" % r.stderr[-400:])
    # every other kind of record: re-run the check that wrote it (the tier named in the file, else quick and,
    # if the signature does not show there, thorough) and ask only whether the signature shows again
    import time
    import common
    common.REPLAY.update(sig=data.get("signature"), path=path, found=False)
    tiers = [data["tier"]] if data.get("tier") in ("quick", "thorough") else ["quick", "thorough"]
    rc = 0
    for tier in tiers:
        rc = CHECKS[prop](tier, time.time())
        if rc != 0:
            break
    return rc


# ------------------------------------------------------------------------------------------------
# C16  tokeniser / tracker / splitter
# ------------------------------------------------------------------------------------------------
def check_c16(tier, t0):
    import time
    from common import run_tlc, tlc_require_clean, extract_json_lines, workdir
    wd = workdir("C16-%s" % tier)
    suffix = "thorough" if tier == "thorough" else "quick"
    states = trans = 0
    vio = []
    # (1) tokeniser: all line sequences up to MaxLines
    mc = run_tlc("MC_Tokens.tla", "MC_Tokens_%s.cfg" % suffix, wd, timeout=1500)
    tlc_require_clean(mc, "Tokens")
    states += mc["distinct"]; trans += mc["generated"]
    tok_cases = os.path.join(wd, "tok_cases.ndjson")
    ntok = extract_json_lines(mc["out_path"], tok_cases)
    os.remove(mc["out_path"])
    tok_out = os.path.join(wd, "tok_out.json")
    run_harness(["tokens", "--cases", tok_cases, "--out", tok_out])
    tk = json.load(open(tok_out))
    if tk["twin_mismatch"]:
        raise ToolError("the Rust twin of the reference tokeniser disagrees with Tokens.tla on %d texts" % tk["twin_mismatch"])
    vio += tk["violations"]
    log("[C16] tokeniser: %d texts, %d minimal failing patterns" % (tk["evaluated"], len(tk["violations"])))
    # (2) tracker: design invariants on all histories (no VIEW), then one history per transition
    inv = run_tlc("MC_Tracker.tla", "MC_Tracker_inv%s.cfg" % ("_thorough" if tier == "thorough" else ""), wd, timeout=2400)
    tlc_require_clean(inv, "Tracker invariants")
    states += inv["distinct"]; trans += inv["generated"]
    gen = run_tlc("MC_Tracker.tla", "MC_Tracker_%s.cfg" % suffix, wd, timeout=1500)
    tlc_require_clean(gen, "Tracker histories")
    states += gen["distinct"]; trans += gen["generated"]
    trk_cases = os.path.join(wd, "trk_cases.ndjson")
    nh = extract_json_lines(gen["out_path"], trk_cases)
    os.remove(gen["out_path"])
    trk_traces = os.path.join(wd, "trk_traces.ndjson")
    trk_out = os.path.join(wd, "trk_out.json")
    run_harness(["tracker", "--cases", trk_cases, "--traces", trk_traces, "--out", trk_out])
    tr = json.load(open(trk_out))
    vio += tr["violations"]
    tv = msglevel.validate_traces(wd, trk_traces, cfg="TrackerTrace.cfg", module="TrackerTrace.tla")
    states += tv["states"]; trans += tv["generated"]
    for r in tv["results"]:
        vio.append({"sig": "C16|tracker|%s" % "+".join(sorted(r["dev"])),
                    "replay": {"kind": "tracker", "history_id": r["id"], "cases_file": trk_cases}})
    log("[C16] tracker: %d histories (one per specification transition), %d trace lines explained, %d flagged" %
        (nh, tv["lines"], len(tv["results"])))
    # (3) splitter
    sp = run_tlc("MC_Split.tla", "MC_Split_%s.cfg" % suffix, wd, timeout=1500)
    tlc_require_clean(sp, "Split inputs")
    states += sp["distinct"]; trans += sp["generated"]
    spl_cases = os.path.join(wd, "spl_cases.ndjson")
    ns = extract_json_lines(sp["out_path"], spl_cases)
    os.remove(sp["out_path"])
    spl_traces = os.path.join(wd, "spl_traces.ndjson")
    spl_out = os.path.join(wd, "spl_out.json")
    run_harness(["split", "--cases", spl_cases, "--traces", spl_traces, "--out", spl_out])
    so = json.load(open(spl_out))
    vio += so["violations"]
    sv = msglevel.validate_traces(wd, spl_traces, cfg="TrackerTrace.cfg", module="TrackerTrace.tla")
    states += sv["states"]; trans += sv["generated"]
    for r in sv["results"]:
        vio.append({"sig": "C16|split|%s" % "+".join(sorted(r["dev"])),
                    "replay": {"kind": "split", "run_id": r["id"], "cases_file": spl_cases}})
    log("[C16] split: %d tag sequences x 8 configurations, %d flagged" % (ns, len(sv["results"])))
    for f in (spl_traces,):
        try:
            os.remove(f)
        except OSError:
            pass
    cov = {
        "states": states, "transitions": trans,
        "traces_validated_against_impl": tr["histories"] + so["splits"],
        "trace_events_explained": tv["lines"] + sv["lines"],
        "evaluations": tk["evaluated"] + tr["histories"] + so["splits"],
        "distinct_nontrivial": tk["distinct_nontrivial"] + tr["distinct_nontrivial"] + ns,
        "rule": "tokeniser: every line sequence up to MaxLines over 12 line classes (x LF/CRLF), non-trivial = more than one line "
                "or a non-field line; tracker: one call history per transition of MC_Tracker (8 field maps, Get/Mark/Consume/Find "
                "with 4 option constraints), non-trivial = more than one call; split: every tag sequence up to MaxLen over 12 tags "
                "x 8 sequence configurations",
        "samples": (tk["samples"][:2] + tr["samples"][:2] + so["samples"][:2]) or [{}],
        "tokeniser_non_minimal_failures_subsumed": tk["subsumed_non_minimal"],
        "exhaustive": True,
        "exhaustive_scope": "within MaxLines / MaxDepth / MaxLen of the %s configuration" % suffix,
    }
    assumptions = ["reference tokeniser Tok (spec/Tokens.tla) and its Rust twin agree in shape on every generated text (checked each run)",
                   "a text whose block terminator is not its last line, or that starts with a dash, is outside the enumerated space",
                   "the contract of find_* leaves the choice between admissible tags open; only the order within a tag is fixed"]
    return report("C16", tier, "model_checking", vio, cov, assumptions, t0)


CHECKS["C16"] = check_c16


# ------------------------------------------------------------------------------------------------
# C17  classification
# ------------------------------------------------------------------------------------------------
def check_c17(tier, t0):
    from common import run_tlc, tlc_require_clean, extract_json_lines, workdir
    wd = workdir("C17-%s" % tier)
    cfg = "Classify_thorough.cfg" if tier == "thorough" else "Classify_quick.cfg"
    mc = run_tlc("Classify.tla", cfg, wd, timeout=1500)
    if mc["violated"]:
        raise ToolError("design-level invariant %s violated in Classify.tla" % mc["violated"])
    tlc_require_clean(mc, "Classify")
    cases = os.path.join(wd, "cases.ndjson")
    n = extract_json_lines(mc["out_path"], cases)
    os.remove(mc["out_path"])
    out = os.path.join(wd, "out.json")
    run_harness(["classify", "--cases", cases, "--out", out])
    s = json.load(open(out))
    log("[C17] %d abstract messages, %d executed, %d skipped, %d minimal mismatches" %
        (n, s["evaluated"], s["skipped"], len(s["violations"])))
    if s["evaluated"] == 0:
        raise ToolError("no classification case could be executed: %s" % s["skip_reasons"])
    cov = {
        "states": mc["distinct"], "transitions": mc["generated"],
        "traces_validated_against_impl": 0,
        "evaluations": s["evaluated"], "distinct_nontrivial": s["distinct_nontrivial"],
        "rule": "every (type in 103/202/205/200) x (subset of 9 code words and look-alikes, size <= MaxWords) x (5 message user "
                "references) x (validation flag 119) x (cover sequence) allowed by Classify!Init; non-trivial = at least one word, "
                "reference, flag or cover sequence; predicates read from SwiftMessage, method from the parse_mt plugin",
        "samples": s["samples"] or [{}],
        "skipped": s["skipped"], "skip_reasons": s["skip_reasons"],
        "non_minimal_mismatches_subsumed": s["subsumed_non_minimal"],
        "exhaustive": True, "exhaustive_scope": "the finite space of %s" % cfg,
    }
    assumptions = ["documented code words are /REJT/ and /RETN/ (field 72 of MT103/202/205) and REJT/RETN inside the message user reference",
                   "the method is compared with what the library's own predicates imply (plus tag 119 for MT202/205), so a wrong predicate "
                   "is reported once, under the predicate"]
    return report("C17", tier, "model_checking", s["violations"], cov, assumptions, t0)


CHECKS["C17"] = check_c17


# ------------------------------------------------------------------------------------------------
# C12  dispatch
# ------------------------------------------------------------------------------------------------
def gen_walks(wd, tier):
    """Unmutated layout walks from MessageParse (used as valid bodies by C12, C08, C13)."""
    from common import run_tlc, tlc_require_clean, extract_json_lines
    cfg = "MC_MessageParse_walks_thorough.cfg" if tier == "thorough" else "MC_MessageParse_walks.cfg"
    mc = run_tlc("MC_MessageParse.tla", cfg, wd, timeout=2400)
    if mc["violated"]:
        raise ToolError("design-level invariant %s violated in MessageParse" % mc["violated"])
    tlc_require_clean(mc, "MessageParse walks")
    walks = os.path.join(wd, "walks.ndjson")
    n = extract_json_lines(mc["out_path"], walks)
    os.remove(mc["out_path"])
    return walks, n, mc


def check_c12(tier, t0):
    from common import run_tlc, tlc_require_clean, extract_json_lines, workdir
    wd = workdir("C12-%s" % tier)
    mc = run_tlc("Dispatch.tla", "Dispatch.cfg", wd, timeout=900)
    if mc["violated"]:
        raise ToolError("design-level invariant %s violated in Dispatch.tla" % mc["violated"])
    tlc_require_clean(mc, "Dispatch")
    cases = os.path.join(wd, "cases.ndjson")
    n = extract_json_lines(mc["out_path"], cases)
    os.remove(mc["out_path"])
    walks, nw, mcw = gen_walks(wd, tier)
    out = os.path.join(wd, "out.json")
    run_harness(["dispatch", "--cases", cases, "--walks", walks, "--out", out])
    s = json.load(open(out))
    log("[C12] %d (entry point, announced, requested) cases, %d diagonal walks through 6 entry points, %d mismatches" %
        (s["evaluated"], s["diagonal_walks"], len(s["violations"])))
    if s["types_without_body"]:
        raise ToolError("no accepted body for types %s (C03 matter) -- dispatch cannot be exercised for them" % s["types_without_body"])
    cov = {
        "states": mc["distinct"] + mcw["distinct"], "transitions": mc["generated"] + mcw["generated"],
        "traces_validated_against_impl": 0,
        "evaluations": s["evaluated"] + 5 * s["diagonal_walks"],
        "distinct_nontrivial": s["evaluated"] - 30,
        "rule": "all 1000 announced codes x 8 entry points (typed, its error-collecting twin parse_with_errors and the wrapper's as_mtNNN / into_mtNNN accessors: x 30 requested types, each with a body of the announced and of the "
                "requested type); plus every unmutated layout walk (<= K optional items / all items, every option) along the diagonal "
                "through auto, wrapper, parse_mt, validate_mt, publish_mt compared with the typed API; non-trivial = every case "
                "except the 30 typed diagonal entries",
        "samples": s["samples"] or [{}],
        "diagonal_walks": s["diagonal_walks"],
        "exhaustive": True, "exhaustive_scope": "the (entry point, announced code, requested type) table; the diagonal is bounded by the walk generator",
    }
    assumptions = ["differential oracle: the typed API of the announced type is the reference for the other entry points",
                   "unsupported = an error whose text says 'unsupported'; mismatch = error T03 / 'mismatch'"]
    return report("C12", tier, "model_checking", s["violations"], cov, assumptions, t0)


CHECKS["C12"] = check_c12


# ------------------------------------------------------------------------------------------------
# C13  validation entry points
# ------------------------------------------------------------------------------------------------
def check_c13(tier, t0):
    from common import run_tlc, tlc_require_clean, workdir
    wd = workdir("C13-%s" % tier)
    mc = run_tlc("Validate.tla", "Validate_thorough.cfg" if tier == "thorough" else "Validate.cfg", wd, timeout=1500)
    if mc["violated"]:
        raise ToolError("design-level invariant %s violated in Validate.tla" % mc["violated"])
    tlc_require_clean(mc, "Validate")
    os.remove(mc["out_path"])
    walks, nw, mcw = gen_walks(wd, tier)
    traces = os.path.join(wd, "traces.ndjson")
    out = os.path.join(wd, "out.json")
    args = ["validate", "--walks", walks, "--traces", traces, "--out", out, "--policies", "3" if tier == "thorough" else "2"]
    rule_texts, nrules, mcr, _ = gen_rule_messages(wd)
    args += ["--texts", rule_texts]
    run_harness(args)
    s = json.load(open(out))
    tv = msglevel.validate_traces(wd, traces, cfg="ValidateTrace.cfg", module="ValidateTrace.tla")
    texts = {t["id"]: t for t in s["texts"]}
    vio = list(s["violations"])
    for r in tv["results"]:
        t = texts.get(r["id"], {})
        vio.append({"sig": "C13|MT%s|%s" % (r["mt"], "+".join(sorted(r["dev"]))),
                    "replay": {"kind": "validate", "mt": r["mt"], "text": t.get("text")}})
    log("[C13] %d messages (%d with errors, %d with several), %d call-history lines explained, %d flagged" %
        (s["messages"], s["with_errors"], s["with_several_errors"], tv["lines"], len(tv["results"])))
    cov = {
        "states": mc["distinct"] + mcw["distinct"] + mcr["distinct"] + tv["states"],
        "transitions": mc["generated"] + mcw["generated"] + mcr["generated"] + tv["generated"],
        "traces_validated_against_impl": s["messages"],
        "trace_events_explained": tv["lines"],
        "evaluations": s["messages"], "distinct_nontrivial": s["with_errors"],
        "rule": "every unmutated layout walk (x content policies) of all 30 types%s; per message a history of 7 validation calls "
                "(both modes twice, message-level, wrapper, plugin) in one of 6 orders; non-trivial = the message violates at least "
                "one network rule" % (" plus the %d rule-enumeration messages of Rules.tla" % nrules),
        "samples": s["samples"] or [{"note": "no message with several errors"}],
        "messages_with_several_errors": s["with_several_errors"],
        "exhaustive": False,
    }
    assumptions = ["error values are compared as (code, field, rendered text)",
                   "the plugin verdict is compared on validity and error count (it renders errors differently)"]
    return report("C13", tier, "model_checking", vio, cov, assumptions, t0)


def common_work():
    import common
    return common.WORK


CHECKS["C13"] = check_c13


# ------------------------------------------------------------------------------------------------
# C10  envelope
# ------------------------------------------------------------------------------------------------
def check_c10(tier, t0):
    from common import run_tlc, tlc_require_clean, extract_json_lines, workdir
    wd = workdir("C10-%s" % tier)
    cfg = "Envelope_thorough.cfg" if tier == "thorough" else "Envelope_quick.cfg"
    mc = run_tlc("Envelope.tla", cfg, wd, timeout=1800)
    if mc["violated"]:
        raise ToolError("design-level invariant %s violated in Envelope.tla" % mc["violated"])
    tlc_require_clean(mc, "Envelope")
    cases = os.path.join(wd, "cases.ndjson")
    n = extract_json_lines(mc["out_path"], cases)
    os.remove(mc["out_path"])
    out = os.path.join(wd, "out.json")
    run_harness(["envelope", "--cases", cases, "--out", out])
    s = json.load(open(out))
    log("[C10] %d envelope cases, %d accepted and compared, %d mismatches" % (s["evaluated"], s["notes"].get("accepted", 0), len(s["violations"])))
    cov = {
        "states": mc["distinct"], "transitions": mc["generated"], "traces_validated_against_impl": 0,
        "evaluations": s["evaluated"], "distinct_nontrivial": s["distinct_nontrivial"],
        "rule": "5 application-header shapes (input P / PM / PMOOO, output with and without priority) x subsets (size <= MaxTags, "
                "and the full set) of the 13 block-3 tags x subsets of the 8 block-5 tags x 17 near-miss / hostile-value faults; "
                "non-trivial = anything but the plain input header without blocks 3 and 5",
        "samples": s["samples"] or [{}],
        "exhaustive": True, "exhaustive_scope": "the finite case space of %s" % cfg,
    }
    assumptions = ["documented block-2 lengths: input 17/18/21, output 46/47 characters; block 1 exactly 25 with numeric session and sequence",
                   "tags are compared textually ({tag:value}) in the re-serialised block, order not required",
                   "the text block ends at a line that starts with '-}'"]
    return report("C10", tier, "model_checking", s["violations"], cov, assumptions, t0)


CHECKS["C10"] = check_c10


# ------------------------------------------------------------------------------------------------
# C11  dates and times
# ------------------------------------------------------------------------------------------------
def check_c11(tier, t0):
    from common import run_tlc, tlc_require_clean, extract_json_lines, workdir
    wd = workdir("C11-%s" % tier)
    mc = run_tlc("Calendar.tla", "Calendar.cfg", wd, timeout=600)
    if mc["violated"]:
        raise ToolError("design-level invariant %s violated in Calendar.tla" % mc["violated"])
    tlc_require_clean(mc, "Calendar")
    table = os.path.join(wd, "table.ndjson")
    extract_json_lines(mc["out_path"], table)
    os.remove(mc["out_path"])
    out = os.path.join(wd, "out.json")
    stride = "1" if tier == "thorough" else "10"
    run_harness(["datetime", "--table", table, "--out", out, "--stride", stride, "--full", "30,32A,13D,60F"])
    s = json.load(open(out))
    vio = [{"sig": v["sig"], "replay": v["replay"]} for v in s["violations"]]
    log("[C11] %d parses over %d date/time-bearing field types, %d valid dates seen, %d violation classes" %
        (s["evaluated"], len(s["fields"]), s["valid_dates_seen"], len(vio)))
    cov = {
        "states": mc["distinct"], "transitions": mc["generated"], "traces_validated_against_impl": 0,
        "evaluations": s["evaluated"], "distinct_nontrivial": s["valid_dates_seen"],
        "rule": "all 1,000,000 six-digit strings through fields 30, 32A, 13D, 60F (every %s-th string through 11, 11R, 11S, 32C, 32D, "
                "60M, 61, 62F, 62M, 64, 65), 7 non-digit classes at each of the 6 positions, all 10,000 HHMM strings through 13C and 13D, "
                "all 10,000 offsets with both signs; MT and JSON; distinct_nontrivial = parses of calendar-valid dates (each compared "
                "for meaning and digits in both representations)" % stride,
        "samples": s["samples"],
        "panics_noted_for_C07": s["panics_noted_for_C07"],
        "exhaustive": tier == "thorough",
        "exhaustive_scope": "full domain for 30/32A/13D/60F and all times/offsets in both tiers; full domain for all 15 date fields in thorough",
    }
    assumptions = ["reference century window 00-49 -> 20yy, 50-99 -> 19yy (documented in swift_utils::parse_date_yymmdd)",
                   "offsets: hh <= 13 and mm <= 59 must be accepted, hh > 23 or mm > 59 must be rejected, 14..23 unconstrained",
                   "the typed date is read from the value's Debug rendering (NaiveDate prints as ISO)"]
    return report("C11", tier, "model_checking", vio, cov, assumptions, t0)


CHECKS["C11"] = check_c11


# ------------------------------------------------------------------------------------------------
# C06  amounts and rates
# ------------------------------------------------------------------------------------------------
def check_c06(tier, t0):
    from common import run_tlc, tlc_require_clean, extract_json_lines, workdir
    wd = workdir("C06-%s" % tier)
    cfg = "Decimal_thorough.cfg" if tier == "thorough" else "Decimal_quick.cfg"
    mc = run_tlc("MC_Decimal.tla", cfg, wd, timeout=1500)
    if mc["violated"]:
        raise ToolError("design-level invariant %s violated in Decimal.tla" % mc["violated"])
    tlc_require_clean(mc, "Decimal")
    cases = os.path.join(wd, "cases.ndjson")
    n = extract_json_lines(mc["out_path"], cases)
    os.remove(mc["out_path"])
    out = os.path.join(wd, "out.json")
    run_harness(["amounts", "--cases", cases, "--out", out])
    s = json.load(open(out))
    vio = [{"sig": v["sig"], "replay": v["replay"]} for v in s["violations"]]
    log("[C06] %d amount texts (%d accepted and compared in MT and JSON), %d violation classes" %
        (s["evaluated"], s["accepted_and_compared"], len(vio)))
    cov = {
        "states": mc["distinct"], "transitions": mc["generated"], "traces_validated_against_impl": 0,
        "evaluations": s["evaluated"], "distinct_nontrivial": s["accepted_and_compared"],
        "rule": "20 amount/rate-bearing field types x currency precision class {0,2,3,4} (JPY, USD, BHD, CLF) x integer digits x "
                "fraction digits 0..5 x 13 spelling classes (3 decimal, 10 non-decimal); distinct_nontrivial = accepted texts whose "
                "value was compared digit-exactly in re-serialised MT, JSON and the JSON round trip",
        "samples": s["samples"] or [{}],
        "panics_noted_for_C07": s["panics_noted_for_C07"],
        "exhaustive": True, "exhaustive_scope": "the finite abstract space of %s; one concrete digit pattern per (n, f)" % cfg,
    }
    assumptions = ["both ',' and '.' count as the decimal separator (the library's unit tests document '.' as accepted)",
                   "an amount written without separator is accepted (documented by the library's unit tests)",
                   "trailing-zero fractions beyond the currency precision (JPY1,00) are outside the enumerated space",
                   "field 36 is enumerated up to 5 integer digits (its documented plausibility range)"]
    return report("C06", tier, "model_checking", vio, cov, assumptions, t0)


CHECKS["C06"] = check_c06


# ------------------------------------------------------------------------------------------------
# C05  field formats
# ------------------------------------------------------------------------------------------------
def run_fieldformats(wd, tier):
    from common import run_tlc, tlc_require_clean, extract_json_lines
    cfg = "FieldFormats_thorough.cfg" if tier == "thorough" else "FieldFormats_quick.cfg"
    mc = run_tlc("MC_FieldFormats.tla", cfg, wd, timeout=3000)
    if mc["violated"]:
        raise ToolError("oracle-sanity invariant %s violated in FieldFormats.tla (a format's typical content is not in its language)" % mc["violated"])
    tlc_require_clean(mc, "FieldFormats")
    cases = os.path.join(wd, "field_cases.ndjson")
    n = extract_json_lines(mc["out_path"], cases)
    os.remove(mc["out_path"])
    return cases, n, mc, cfg


def check_c05(tier, t0):
    from common import workdir
    wd = workdir("C05-%s" % tier)
    cases, n, mc, cfg = run_fieldformats(wd, tier)
    out = os.path.join(wd, "out.json")
    run_harness(["fields", "--cases", cases, "--out", out])
    s = json.load(open(out))
    vio = [{"sig": v["sig"], "replay": v["replay"]} for v in s["violations"]]
    # documented example contents of data/contents.json that a field treats otherwise than declared
    for nt in table_notes():
        kind = {"valid entry rejected by field parser": "in-format-rejected", "invalid entry accepted by field parser": "out-of-format-accepted",
                "field parser panicked": "panic"}.get(nt.get("note"))
        if kind:
            vio.append({"sig": "C05|Field%s|%s|table:%s" % (nt["tag"], kind, nt.get("content", "")[:24].replace("\n", "/")),
                        "replay": {"kind": "field", "tag": nt["tag"], "content": nt.get("content"), "detail": nt}})
    log("[C05] %d contents over %d field types (%d in the documented language), %d mismatch signatures" %
        (s["evaluated"], s["fields"], s["in_language"], len(vio)))
    cov = {
        "states": mc["distinct"], "transitions": mc["generated"], "traces_validated_against_impl": 0,
        "evaluations": s["evaluated"], "distinct_nontrivial": s["distinct_nontrivial"],
        "rule": "per field format: the typical content and every content deviating from it in at most Budget components "
                "(min / max / max+1 / min-1 lengths, foreign characters at first / last position, absent / present optional parts, "
                "alternative branches, line counts 1 / max / max+1, blank and trailing lines, missing / wrong / doubled literals, "
                "invalid dates, times, offsets, currencies, BIC shapes, code words, trailing characters and lines); the verdict of "
                "each content is computed by the generic matcher InLanguage; non-trivial = every content but the typical one",
        "samples": s["samples"] or [{}],
        "fields_covered": s["fields"],
        "fields_not_covered": ["23 (documented format and documented function codes do not fit together)", "77T (9000z)",
                               "option enums (C14)"],
        "multi_deviation_cases_subsumed": s.get("subsumed_multi_deviation", 0),
        "panics_noted_for_C07": s["panics_noted_for_C07"],
        "exhaustive": True, "exhaustive_scope": "the generator's shape space of %s" % cfg,
    }
    assumptions = ["reference formats = the library's own documented Format lines (spec/FieldFormats.tla), SR2025 where silent",
                   "character class x = the set documented in swift_utils::parse_swift_chars (ASCII letters and digits), CR/LF only as line separators",
                   "accepted contents must reappear character by character (in order) in the serialised field; canonical additions are allowed"]
    return report("C05", tier, "model_checking", vio, cov, assumptions, t0)


CHECKS["C05"] = check_c05


# ------------------------------------------------------------------------------------------------
# C04  network validation rules
# ------------------------------------------------------------------------------------------------
def gen_rule_messages(wd):
    """Rules.tla fact vectors -> messages; returns (texts file, #cases, TLC stats, harness summary)."""
    from common import run_tlc, tlc_require_clean, extract_json_lines
    mc = run_tlc("MC_Rules.tla", "Rules.cfg", wd, timeout=1800)
    if mc["violated"]:
        raise ToolError("design-level invariant %s violated in Rules.tla" % mc["violated"])
    tlc_require_clean(mc, "Rules")
    cases = os.path.join(wd, "rule_cases.ndjson")
    n = extract_json_lines(mc["out_path"], cases)
    os.remove(mc["out_path"])
    out = os.path.join(wd, "rules_out.json")
    texts = os.path.join(wd, "rule_messages.ndjson")
    run_harness(["rules", "--cases", cases, "--out", out, "--texts", texts])
    return texts, n, mc, json.load(open(out))


def check_c04(tier, t0):
    from common import workdir
    wd = workdir("C04-%s" % tier)
    texts, n, mc, s = gen_rule_messages(wd)
    vio = [{"sig": v["sig"], "replay": v["replay"]} for v in s["violations"]]
    nrej = sum(s["rejected_by_parser"].values())
    log("[C04] %d fact vectors, %d validated (%d violate at least one rule), %d refused by the parser, %d mismatch signatures" %
        (n, s["evaluated"], s["rule_violating_messages"], nrej, len(vio)))
    if s["evaluated"] == 0:
        raise ToolError("no rule case reached validation")
    cov = {
        "states": mc["distinct"], "transitions": mc["generated"], "traces_validated_against_impl": 0,
        "evaluations": s["evaluated"], "distinct_nontrivial": s["rule_violating_messages"],
        "rule": "fact vectors of Rules.tla (per type a union of cones: each rule's facts vary freely, the rest stays at a valid "
                "baseline), each realised as a message, parsed and validated; compared: set of reported codes vs Expected; "
                "non-trivial = the vector violates at least one documented rule",
        "samples": s["samples"] or [{}],
        "types_covered": sorted(s["per_type"].keys()),
        "types_not_covered": [t for t in ["111", "112", "190", "191", "196", "199", "290", "291", "296", "299", "900"]
                              if t not in s["per_type"]],
        "types_without_network_rules_in_the_library": ["111", "112", "190", "191", "199", "290", "291", "299", "900"],
        "codes_reported": s["codes_reported"],
        "refused_by_parser": s["rejected_by_parser"],
        "exhaustive": True, "exhaustive_scope": "the cones of Rules.tla",
    }
    assumptions = ["reference rules = the rule texts quoted in the library's doc comments / rule descriptions (SR2025 wording)",
                   "MT910 C1 is taken as the library documents it (at least one of 50a / 52a; both allowed)",
                   "sets of codes are compared, not multiplicities"]
    return report("C04", tier, "model_checking", vio, cov, assumptions, t0)


CHECKS["C04"] = check_c04


# ------------------------------------------------------------------------------------------------
# C14  option letters
# ------------------------------------------------------------------------------------------------
def check_c14(tier, t0):
    from common import workdir
    wd = workdir("C14-%s" % tier)
    # field level: every family x every letter (and a letter outside the family, and the heuristic)
    cases, n, mc, cfg = run_fieldformats(wd, tier)
    out = os.path.join(wd, "variants_out.json")
    run_harness(["variants", "--cases", cases, "--out", out])
    s = json.load(open(out))
    vio = [{"sig": v["sig"], "replay": v["replay"]} for v in s["violations"]]
    log("[C14] field level: %d probes over %d families (%d contents accepted by several options), %d mismatch signatures" %
        (s["evaluated"], s["families"], s["ambiguous_contents"], len(vio)))
    # message level: every option letter of the family in every position where the family occurs
    r = msglevel.run_pipeline("C14", tier)
    p = r["summary"]["props"]["C14"]
    vio += p["violations"]
    log("[C14] message level: %d option-letter substitutions in layout positions, %d parsed as another variant" %
        (p["evaluated"], len(p["violations"])))
    cov = _msg_cov(r, "C14", "field level: per option family, every content the FieldFormats shape space puts in the language of one "
                   "of its options plus hand-picked ambiguous contents, parsed with every letter of the family, with a letter outside "
                   "it, without letter (heuristic); message level: in every generated walk, every field of an option family gets every "
                   "other letter of its base tag (mutation 'letter' of MessageParse.tla)")
    cov["states"] += mc["distinct"]
    cov["transitions"] += mc["generated"]
    cov["evaluations"] = s["evaluated"] + p["evaluated"]
    cov["distinct_nontrivial"] = s["ambiguous_contents"] + p["evaluated"]
    cov["families"] = s["families"]
    cov["samples"] = (s["samples"][:3] + p["samples"][:2]) or [{}]
    assumptions = MSG_ASSUMPTIONS + ["which options accept a content is decided by the options' own struct-level parsers (differential), "
                                     "so a format defect is reported once, under C05",
                                     "Field25AccountIdentification is content-discriminated by documentation (tag 25 for both) and excluded"]
    return report("C14", tier, "model_checking", vio, cov, assumptions, t0)


CHECKS["C14"] = check_c14


# ------------------------------------------------------------------------------------------------
# C08  JSON conversion
# ------------------------------------------------------------------------------------------------
def check_c08(tier, t0):
    from common import run_tlc, tlc_require_clean, workdir
    wd = workdir("C08-%s" % tier)
    mc = run_tlc("JsonModel.tla", "JsonModel.cfg", wd, timeout=1500)
    if mc["violated"]:
        raise ToolError("design-level invariant %s violated in JsonModel.tla" % mc["violated"])
    tlc_require_clean(mc, "JsonModel")
    os.remove(mc["out_path"])
    walks, nw, mcw = gen_walks(wd, tier)
    cases, n, mcf, cfg = run_fieldformats(wd, tier)
    out = os.path.join(wd, "out.json")
    run_harness(["json", "--walks", walks, "--fields", cases, "--out", out, "--policies", "4" if tier == "thorough" else "3"])
    s = json.load(open(out))
    vio = [{"sig": v["sig"], "replay": v["replay"]} for v in s["violations"]]
    es, emc, ecfg = run_envelope(wd, tier)
    vio += [{"sig": v["sig"], "replay": v["replay"]} for v in es["c08_violations"]]
    log("[C08] %d messages, %d field values and %d envelope shapes through to_value / from_value / publish_mt / parse_mt, %d mismatch signatures" %
        (s["evaluated"], s["field_level"], es["c08_evaluated"], len(vio)))
    cov = {
        "states": mc["distinct"] + mcw["distinct"] + mcf["distinct"] + emc["distinct"],
        "transitions": mc["generated"] + mcw["generated"] + mcf["generated"] + emc["generated"],
        "traces_validated_against_impl": 0,
        "evaluations": s["evaluated"] + s["field_level"] + es["c08_evaluated"], "distinct_nontrivial": s["distinct_nontrivial"] + s["field_level"],
        "envelope_level_shapes": es["c08_evaluated"],
        "rule": "every unmutated layout walk of the 30 types x content policies (typical / alternative / boundary shapes), plus per type "
                "5 application-header shapes x {no block 3, all 13 block-3 tags, + trailer}, plus every accepted content of the FieldFormats "
                "shape space at field level, plus every admitted shape of Envelope.tla (headers with and without a real branch code, block-3 "
                "and block-5 tag subsets); per value: from_value(to_value(v)) equal in JSON and MT text, publish_mt(json) = "
                "to_mt_message, parse_mt JSON = typed JSON, no empty placeholder under a tag key, numbers finite",
        "samples": s["samples"] or [{}],
        "exhaustive": False,
    }
    assumptions = ["JsonModel.tla states the grouping / flattening discipline (RoundTrip, OrderPreserved, AbsentNotPlaceholder) and is "
                   "model-checked on a 3-tag universe; order in the implementation's JSON is witnessed by publish_mt reproducing the text",
                   "an empty '#' array for a repeating sequence with no occurrence is not counted as a placeholder"]
    return report("C08", tier, "model_checking", vio, cov, assumptions, t0)


CHECKS["C08"] = check_c08


# ------------------------------------------------------------------------------------------------
# C15  shipped scenarios
# ------------------------------------------------------------------------------------------------
def check_c15(tier, t0):
    from common import workdir, REPLAYS
    wd = workdir("C15-%s" % tier)
    draws = "100" if tier == "thorough" else "5"
    traces = os.path.join(wd, "traces.ndjson")
    out = os.path.join(wd, "out.json")
    art = os.path.join(REPLAYS, "C15", "draws")
    run_harness(["scenarios", "--draws", draws, "--typed-draws", "10" if tier == "thorough" else "2",
                 "--traces", traces, "--out", out, "--artefacts", art])
    s = json.load(open(out))
    tv = msglevel.validate_traces(wd, traces, cfg="Pipeline.cfg", module="Pipeline.tla")
    arts = {a["id"]: a["artefact"] for a in s["artefacts"]}
    vio = []
    for r in tv["results"]:
        for d in r["dev"]:
            kind = d.split(":")[0]
            detail = d[len(kind) + 1:] if ":" in d else ""
            # the first path element / error code is specific enough to tell findings apart
            key = detail.split(" ")[0][:60] if kind in ("ParsedDiffersFromGenerated", "NotInReferenceLayout") else detail[:40]
            vio.append({"sig": "C15|%s|%s|%s" % (r["scenario"], kind, key),
                        "replay": {"kind": "scenario", "scenario": r["scenario"], "artefact": arts.get(r["id"]), "deviation": d}})
    log("[C15] %d scenario files x %s draws (+ 2 boundary draws, + %d runs through the typed sample API) = %d pipeline runs, "
        "%d trace lines explained, %d runs flagged" %
        (s["scenario_files"], draws, s.get("typed_api_runs", 0), s["runs"], tv["lines"], len(tv["results"])))
    if s["runs"] == 0:
        raise ToolError("no scenario could be run")
    cov = {
        "states": tv["states"], "transitions": tv["generated"],
        "traces_validated_against_impl": s["runs"], "trace_events_explained": tv["lines"],
        "evaluations": s["runs"], "distinct_nontrivial": s["runs"],
        "rule": "every scenario file under test_scenarios (all 30 types) x N random draws; each draw is one run "
                "generate_mt -> publish_mt -> validate_mt -> parse_mt whose four stage results are validated by TLC against Pipeline.tla "
                "(stage order, published tags accepted by the reference layout via Walker!Walk, no validation error, parsed JSON exactly "
                "equal to generated JSON); every run is a distinct random draw; per file two boundary draws (every substr-cut text "
                "exactly at its limit; the cut right after a blank) and N' draws through the typed sample API "
                "(generate_sample_with_config::<T> -> to_mt_message -> validate -> parse), validated by the same trace specification",
        "samples": s["samples"] or [{}],
        "scenario_files": s["scenario_files"], "draws_per_file": int(draws),
        "exhaustive": False,
    }
    assumptions = ["datafake draws are not seedable from outside: the generated JSON and published text of every failing draw are saved as replay artefacts",
                   "exact comparison: numbers as decimals, null / all-null object / empty array equal to absent"]
    return report("C15", tier, "model_checking", vio, cov, assumptions, t0)


CHECKS["C15"] = check_c15


# ------------------------------------------------------------------------------------------------
# C07  totality
# ------------------------------------------------------------------------------------------------
def check_c07(tier, t0):
    from common import workdir
    wd = workdir("C07-%s" % tier)
    walks, nw, mcw = gen_walks(wd, "quick")
    cases, n, mcf, cfg = run_fieldformats(wd, "quick")
    traces = os.path.join(wd, "traces.ndjson")
    out = os.path.join(wd, "out.json")
    args = ["total", "--walks", walks, "--fields", cases, "--traces", traces, "--out", out]
    rule_texts, nrules, mcr, _ = gen_rule_messages(wd)
    args += ["--rule-texts", rule_texts]
    if tier == "thorough":
        args.append("--thorough")
    import common
    hang_file = out + ".hang"
    if os.path.exists(hang_file):
        os.remove(hang_file)
    run_harness(args, timeout=5400, ok_codes=(0, 42))
    if common.LAST_HARNESS_RC[0] == 42:
        # a call did not return: the watchdog ended the harness and left the call and its session's begin record.
        # Nothing else of this run is usable (the trace stops in mid-air), and nothing else is needed
        h = json.load(open(hang_file))
        b = h.get("begin") or {}
        vio = [{"sig": "C07|hang|%s" % h.get("op"),
                "replay": {"kind": b.get("kind"), "input": b.get("input"), "meta": b.get("meta"),
                           "deviation": "hang:%s:no answer after %d ms" % (h.get("op"), h.get("after_ms", 0))}}]
        log("[C07] the call %s of a %s session did not return within %d ms" % (h.get("op"), b.get("kind"), h.get("after_ms", 0)))
        cov = {"states": 0, "transitions": 0, "traces_validated_against_impl": 0, "evaluations": 0, "distinct_nontrivial": 0,
               "rule": "run ended by the watchdog at the first call that did not return", "samples": [{}], "exhaustive": False}
        return report("C07", tier, "exploration", vio, cov, ["a call that has not returned after 60 s is a hang"], t0)
    s = json.load(open(out))
    tv = msglevel.validate_traces(wd, traces, cfg="Session.cfg", module="Session.tla")
    flagged = {r["id"]: r["dev"] for r in tv["results"]}
    begins = {}
    if flagged:
        with open(traces) as f:
            for line in f:
                if line.startswith('{"e":"begin"') or '"e":"begin"' in line[:40]:
                    d = json.loads(line)
                    if d["id"] in flagged:
                        begins[d["id"]] = d
    vio, seen = [], set()
    for rid, devs in sorted(flagged.items()):
        b = begins.get(rid, {})
        for d in devs:
            parts = d.split(":")
            res, op, where = parts[0], (parts[1] if len(parts) > 1 else ""), ":".join(parts[2:])
            sig = "C07|%s|%s|%s" % (res, op, where)
            if sig in seen:
                continue          # first (smallest-id) session per signature is the replay
            seen.add(sig)
            vio.append({"sig": sig, "replay": {"kind": b.get("kind"), "input": b.get("input"), "meta": b.get("meta"), "deviation": d}})
    log("[C07] %d adversarial sessions, %d calls, %d trace lines explained by Session.tla, %d sessions with a non-total answer; "
        "worst time exponent %.2f" % (s["inputs"], s["calls"], tv["lines"], len(flagged), s["worst_exponent"]))
    if tier == "thorough":
        os.remove(traces)
    cov = {
        "states": tv["states"] + mcw["distinct"] + mcf["distinct"], "transitions": tv["generated"] + mcw["generated"] + mcf["generated"],
        "traces_validated_against_impl": s["inputs"], "trace_events_explained": tv["lines"],
        "evaluations": s["calls"], "distinct_nontrivial": s["inputs"],
        "rule": "inputs derived from the models, not random: (field level) every content of the FieldFormats shape space; per field type the "
                "typical content with a multi-byte / NUL character inserted or substituted at every character position, k ASCII characters "
                "replaced by one k-byte character at every position (byte length preserved), digits of other scripts, every truncation, "
                "empty / 10 kB / 200 blank lines; every option enum with each letter and heuristically; (headers) blocks 1 2 3 5 truncated "
                "at every length and poisoned at every offset; (messages) layout walks of all 30 types poisoned inside every field, in tags "
                "and headers, truncated at every line and at each of the first 60 characters; (JSON) every string / number leaf of a valid "
                "message's JSON made hostile, then from_value -> to_mt_message -> validate -> to_value -> re-parse -> publish_mt; (legacy API) "
                "parse_block4_fields, extract_field_content, extract_block4, tag normalisation; every error is rendered by Display, "
                "debug_report, brief_message, format_with_context; (time) 11 input families x 8 entry points on a size ladder 16 kB.."
                + ("1 MB" if tier == "thorough" else "256 kB") + ", log-log slope of the best-of-3 times <= 2.6. Every call is one trace event "
                "validated by TLC against Session.tla, whose result alphabet per operation is {ok, err} or {ok}",
        "samples": s["samples"] or [{}],
        "scaling": s["scaling"], "worst_exponent": s["worst_exponent"],
        "exhaustive": False,
    }
    assumptions = ["totality over all strings is not decidable by enumeration: this check explores a model-derived adversarial family (level: exploration)",
                   "a call counts as hanging when it needs more than 2 s on inputs of at most 10 kB, or when the fitted time exponent exceeds 2.6",
                   "timing is measured on a shared machine: best of 3 runs per size"]
    return report("C07", tier, "exploration", vio, cov, assumptions, t0)


CHECKS["C07"] = check_c07
