"""One function per property: runs its pipeline, turns the outcome into violations + evidence."""
import json
import os
import subprocess
import tempfile

import msglevel
from common import HARNESS, log, report, run_harness, ToolError

MSG_ASSUMPTIONS = [
    "reference layouts (spec/Layouts.tla) transcribed from the message structs, option enums and documented field order",
    "reference tokeniser (harness/src/tok.rs) as specified in spec/Tokens.tla",
    "concrete field contents from data/contents.json, each pre-validated stand-alone against its field parser on every run",
    "bounds: walks with at most K optional elements present or all present, one non-default option per walk, "
    "sequence repetitions {min,1,2,cap,cap+1}; mutations as configured in the MC_MessageParse_*.cfg of the tier",
]


def _msg_cov(r, prop, rule, extra=None):
    s = r["summary"]
    p = s["props"][prop]
    cov = {
        "states": r["mc"]["distinct"] + r["trace"]["states"],
        "transitions": r["mc"]["generated"] + r["trace"]["generated"],
        "traces_validated_against_impl": s["traces"],
        "trace_events_explained": r["trace"]["lines"],
        "evaluations": p["evaluated"],
        "distinct_nontrivial": s["distinct_nontrivial"],
        "rule": rule,
        "samples": p["samples"][:6] or [{"note": "no case of this class generated"}],
        "tlc_behaviours": r["ncases"],
        "tlc_config": r["cfg"],
        "types_covered": sorted(s["per_type"].keys()),
        "notes": p["notes"],
        "content_table_notes": s["content_notes"][:20],
        "exhaustive": False,
    }
    if extra:
        cov.update(extra)
    return cov


RULE_MSG = ("cases = terminal states of the TLC exploration of spec/MessageParse.tla (walk generation x mutation x "
            "reference parse), each concretised and executed against the library; distinct = distinct (type, token "
            "sequence, mutation) triples; non-trivial = at least one optional element, non-default option, "
            "repetition mode or mutation")


def check_c01(tier, t0):
    r = msglevel.run_pipeline("C01", tier)
    vio = list(r["summary"]["props"]["C01"]["violations"])
    flagged_ids = {v["replay"]["case"].get("id") for v in vio}
    io_ids = set()
    for v in vio:
        io_ids.add(json.dumps(v["replay"]["case"], sort_keys=True))
    # trace-derived: accepted runs that needed a deviation / did not take every field
    mech_count = {}
    for t in r["trace"]["results"]:
        if t["lossy"]:
            for m in t["mech"]:
                mech_count[m] = mech_count.get(m, 0) + 1
    trace_only = [t for t in r["trace"]["results"] if t["lossy"] and t["same"]]
    for t in trace_only:
        vio.append({"sig": "C01|MT%s|trace|mech=%s" % (t["mt"], "+".join(sorted(t["mech"]))),
                    "replay": {"trace_run_id": t["id"], "cases_file": os.path.join(r["wd"], "cases.ndjson")}})
    cov = _msg_cov(r, "C01", RULE_MSG, {"loss_mechanisms_seen_in_traces": mech_count,
                                        "layout_disagreements_noted": sum(1 for t in r["trace"]["results"]
                                                                          if t["res"] == "accepted" and t["walker"] != "accept")})
    return report("C01", tier, "model_checking", vio, cov, MSG_ASSUMPTIONS, t0)


def check_c03(tier, t0):
    r = msglevel.run_pipeline("C03", tier)
    vio = r["summary"]["props"]["C03"]["violations"]
    return report("C03", tier, "model_checking", vio, _msg_cov(r, "C03", RULE_MSG), MSG_ASSUMPTIONS, t0)


def check_c09(tier, t0):
    r = msglevel.run_pipeline("C09", tier)
    vio = r["summary"]["props"]["C09"]["violations"]
    return report("C09", tier, "model_checking", vio, _msg_cov(r, "C09", RULE_MSG), MSG_ASSUMPTIONS, t0)


def check_c02(tier, t0):
    r = msglevel.run_pipeline("C02", tier)
    vio = r["summary"]["props"]["C02"]["violations"]
    return report("C02", tier, "model_checking", vio, _msg_cov(r, "C02", RULE_MSG), MSG_ASSUMPTIONS, t0)


CHECKS = {
    "C01": check_c01,
    "C02": check_c02,
    "C03": check_c03,
    "C09": check_c09,
}


def replay(prop, path):
    data = json.load(open(path))
    rp = data.get("replay") or {}
    if prop in ("C01", "C02", "C03", "C09") and "case" in rp:
        with tempfile.TemporaryDirectory() as td:
            cases = os.path.join(td, "cases.ndjson")
            with open(cases, "w") as f:
                f.write(json.dumps(rp["case"]) + "\n")
            out = os.path.join(td, "out.json")
            run_harness(["msg", "--cases", cases, "--out", out, "--policies", str(int(rp.get("policy", 0)) + 1)])
            s = json.load(open(out))
            vs = [v for v in s["props"][prop]["violations"] if v["sig"] == data.get("signature")]
            print(rp.get("text", ""))
            if vs:
                print("VIOLATION property=%s replay=%s  (%s reproduced)" % (prop, path, data.get("signature")))
                return 1
            print("not reproduced: %s" % data.get("signature"))
            return 0
    raise ToolError("no replay procedure for %s with this file" % prop)
