"""regenerate the seeds table of DESIGN.md (between the SEEDTABLE markers) from seeded/*/meta.json"""
import glob
import json
import os
V = os.path.dirname(os.path.dirname(os.path.abspath(__file__)))
rows = ["| seed | property | needs to manifest | caught by |", "|---|---|---|---|"]
for d in sorted(glob.glob(os.path.join(V, "seeded", "*", ""))):
    m = json.load(open(os.path.join(d, "meta.json")))
    run = m.get("checks_run", "")
    flag = "**strengthened** — " if run.startswith("missed") else ""
    rows.append("| %s | %s | %s | %s%s |" % (m["seed"], m["breaks_property"], m.get("needs_to_manifest", "").replace("|", "\\|"), flag, run.replace("|", "\\|")))
p = os.path.join(V, "DESIGN.md")
s = open(p).read()
a, b = s.index("<!-- SEEDTABLE-BEGIN -->"), s.index("<!-- SEEDTABLE-END -->")
s = s[:a] + "<!-- SEEDTABLE-BEGIN -->\n" + "\n".join(rows) + "\n" + s[b:]
open(p, "w").write(s)
print(len(rows) - 2, "seeds")
