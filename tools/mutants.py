#!/usr/bin/env python3
"""Mechanical mutants of the rule programs, as a catch-rate estimate for C04 / C13 next to the agent-made seeds.
usage: mutants.py <count> <seed> [check ...]      (runs inside REPO = $VERIF_REPO or /repo; restores every file)
       MUT_GLOB / MUT_FN select the files and functions (default: src/messages/mt*.rs, fn validate_...;
       e.g. MUT_GLOB='src/fields/field*.rs' MUT_FN='fn parse' for the field parsers)
Each mutant flips one operator inside a matching function body; it is kept if the crate still
builds. A mutant counts as caught when one of the given quick checks exits 1."""
import os, random, re, subprocess, sys, json, glob

REPO = os.environ.get("VERIF_REPO") or os.environ.get("VP_RUN_REPO") or "/repo"
ROOT = os.path.dirname(os.path.dirname(os.path.abspath(__file__)))
FLIPS = [(" && ", " || "), (" || ", " && "), (" == ", " != "), (" != ", " == "), (".is_some()", ".is_none()"),
         (".is_none()", ".is_some()"), (" > ", " >= "), (" >= ", " > "), (" < ", " <= "), ("!self.", "self.")]


def sites():
    out = []
    for path in sorted(glob.glob(os.path.join(REPO, os.environ.get("MUT_GLOB", "src/messages/mt*.rs")))):
        lines = open(path).read().split("\n")
        infn = False
        depth = 0
        for i, l in enumerate(lines):
            if re.search(os.environ.get("MUT_FN", r"fn validate_\w+"), l):
                infn, depth = True, 0
            if "#[cfg(test)]" in l:
                break
            if infn:
                depth += l.count("{") - l.count("}")
                s = l.strip()
                if not s.startswith("//") and '"' not in l:
                    for a, b in FLIPS:
                        for m in re.finditer(re.escape(a), l):
                            out.append((path, i, m.start(), a, b))
                if depth <= 0 and "{" in "".join(lines[max(0, i - 200):i + 1]) and l.strip() == "}":
                    infn = False
    return out


def main():
    count, seed = int(sys.argv[1]), int(sys.argv[2])
    checks = sys.argv[3:] or ["C04", "C13"]
    random.seed(seed)
    ss = sites()
    random.shuffle(ss)
    res = []
    for path, i, col, a, b in ss:
        if len(res) >= count:
            break
        orig = open(path).read()
        lines = orig.split("\n")
        lines[i] = lines[i][:col] + b + lines[i][col + len(a):]
        open(path, "w").write("\n".join(lines))
        try:
            if subprocess.run(["cargo", "build", "--offline", "-q"], cwd=REPO, capture_output=True).returncode != 0:
                continue
            caught_by = []
            for c in checks:
                r = subprocess.run([os.path.join(ROOT, "check"), c, "quick"], cwd=ROOT, capture_output=True, text=True)
                if r.returncode == 1:
                    caught_by.append(c)
                elif r.returncode != 0:
                    caught_by.append(c + ":tool-error")
            rec = {"file": os.path.relpath(path, REPO), "line": i + 1, "from": a.strip(), "to": b.strip(),
                   "text": orig.split("\n")[i].strip()[:160], "caught_by": caught_by}
            res.append(rec)
            print(json.dumps(rec), flush=True)
        finally:
            open(path, "w").write(orig)
    n = len(res)
    k = sum(1 for r in res if any(":" not in c for c in r["caught_by"]))
    print("mutants: %d built, %d caught, %d survived" % (n, k, n - k))
    os.makedirs(os.path.join(ROOT, "work"), exist_ok=True)
    json.dump(res, open(os.path.join(ROOT, "work", "mutants_%d.json" % seed), "w"), indent=1)


if __name__ == "__main__":
    main()
