"""./check seeds [ids...] -- regression over the kept seeded defects: apply each patch to /repo, run the quick check of the
property it breaks, expect exit 1 with a VIOLATION line, restore /repo. Writes seeded/RESULTS.json."""
import json
import os
import subprocess
import sys
import time

VERIF = os.path.dirname(os.path.dirname(os.path.abspath(__file__)))
REPO = os.environ.get("VERIF_REPO") or os.environ.get("VP_RUN_REPO") or "/repo"
SEEDED = os.path.join(VERIF, "seeded")


def sh(cmd, cwd=None):
    return subprocess.run(cmd, shell=True, cwd=cwd, stdout=subprocess.PIPE, stderr=subprocess.STDOUT, text=True)


def run(ids=None):
    if sh("git status --porcelain -- src", cwd=REPO).stdout.strip():
        print("%s has uncommitted changes under src: refusing to apply seeds" % REPO)
        return 2
    ids = ids or sorted(d for d in os.listdir(SEEDED) if os.path.isdir(os.path.join(SEEDED, d)))
    res_path = os.path.join(SEEDED, "RESULTS.json")
    results = json.load(open(res_path)) if os.path.exists(res_path) else {}
    missed = 0
    for sid in ids:
        d = os.path.join(SEEDED, sid)
        meta = json.load(open(os.path.join(d, "meta.json")))
        props = [meta["breaks_property"]] + meta.get("also_check", [])
        a = sh("git apply %s" % os.path.join(d, "patch.diff"), cwd=REPO)
        if a.returncode != 0:
            print("%s: patch does not apply: %s" % (sid, a.stdout[-200:]))
            results[sid] = {"applies": False}
            missed += 1
            continue
        try:
            caught_by, lines = [], []
            for p in props:
                t0 = time.time()
                r = sh("./check %s quick" % p, cwd=VERIF)
                v = [l for l in r.stdout.splitlines() if l.startswith("VIOLATION")]
                if r.returncode == 1 and v:
                    caught_by.append(p)
                    lines += [l[:200] for l in v[:3]]
                print("%s: check %s quick exit=%d, %d VIOLATION line(s), %.0fs" % (sid, p, r.returncode, len(v), time.time() - t0))
                if caught_by:
                    break
        finally:
            sh("git checkout -- .", cwd=REPO)
        results[sid] = {"applies": True, "caught_by": caught_by, "first_lines": lines}
        if not caught_by:
            missed += 1
    json.dump(results, open(res_path, "w"), indent=1, sort_keys=True)
    print("seeds: %d run, %d not caught" % (len(ids), missed))
    return 0 if missed == 0 else 2


if __name__ == "__main__":
    sys.exit(run(sys.argv[1:] or None))
