"""Shared machinery of the check driver: TLC runs, harness builds, evidence, known findings."""
import fnmatch
import hashlib
import json
import os
import re
import subprocess
import sys
import time

VERIF = os.path.dirname(os.path.dirname(os.path.abspath(__file__)))
SPEC = os.path.join(VERIF, "spec")
HARNESS_DIR = os.path.join(VERIF, "harness")
HARNESS = os.path.join(HARNESS_DIR, "target", "release", "swiftmt-verif-harness")
WORK = os.path.join(VERIF, "work")
REPLAYS = os.path.join(VERIF, "replays")
EVIDENCE = os.path.join(VERIF, "evidence")
KNOWN = os.path.join(VERIF, "known_findings.json")
TLC_WORKERS = int(os.environ.get("VERIF_TLC_WORKERS", "8"))
# the repository under test; VERIF_REPO lets a snapshot run (vp run --with-repo) use its own copy
REPO = os.environ.get("VERIF_REPO") or os.environ.get("VP_RUN_REPO") or "/repo"
os.environ["VERIF_ROOT"] = VERIF       # the harness finds data/contents.json below it
os.environ["VERIF_REPO"] = REPO


class ToolError(Exception):
    pass


def seed():
    try:
        return int(os.environ.get("VERIF_SEED", "1"))
    except ValueError:
        return 1


def workdir(name):
    d = os.path.join(WORK, name)
    os.makedirs(d, exist_ok=True)
    return d


def log(msg):
    print(msg, flush=True)


def build_harness():
    """(Re)build the harness against /repo's current working tree, hooks enabled."""
    lock_src = os.path.join(REPO, "Cargo.lock")
    if REPO != "/repo":
        # a snapshot run: point the path dependency of this copy of the harness at its own repository
        ct = os.path.join(HARNESS_DIR, "Cargo.toml")
        txt = open(ct).read()
        new = re.sub(r'swift-mt-message = \{ path = "[^"]*" \}', 'swift-mt-message = { path = "%s" }' % REPO, txt)
        if new != txt:
            open(ct, "w").write(new)
    lock_dst = os.path.join(HARNESS_DIR, "Cargo.lock")
    if not os.path.exists(lock_dst) and os.path.exists(lock_src):
        import shutil
        shutil.copy(lock_src, lock_dst)
    t0 = time.time()
    env = dict(os.environ)
    env["CARGO_NET_OFFLINE"] = "true"
    r = subprocess.run(["cargo", "build", "--release", "--offline"], cwd=HARNESS_DIR, env=env,
                       stdout=subprocess.PIPE, stderr=subprocess.STDOUT, text=True)
    if r.returncode != 0:
        tail = "\n".join(r.stdout.splitlines()[-40:])
        raise ToolError("harness build failed (does /repo still compile?)\n" + tail)
    return time.time() - t0


LAST_HARNESS_RC = [0]


def run_harness(args, timeout=3600, stdout_path=None, ok_codes=(0,)):
    t0 = time.time()
    out = open(stdout_path, "w") if stdout_path else subprocess.PIPE
    try:
        r = subprocess.run([HARNESS] + args, stdout=out, stderr=subprocess.DEVNULL, text=True, timeout=timeout)
    except subprocess.TimeoutExpired:
        raise ToolError("harness timed out: " + " ".join(args[:3]))
    finally:
        if stdout_path:
            out.close()
    LAST_HARNESS_RC[0] = r.returncode
    if r.returncode == 42 and 42 not in ok_codes:
        raise ToolError("a library call did not return within the harness watchdog's limit (no verdict): %s" % " ".join(args[:4]))
    if r.returncode not in ok_codes:
        raise ToolError("harness exited with %d: %s" % (r.returncode, " ".join(args[:4])))
    return (r.stdout if not stdout_path else ""), time.time() - t0


TLC_STATS = re.compile(r"(\d+) states generated, (\d+) distinct states found")


def run_tlc(module, cfg, wd, workers=None, timeout=1800, extra=None, env_extra=None, java_opts=None,
            simulate=None):
    """Run TLC; returns dict(out_path, generated, distinct, ok, violated, wall)."""
    os.makedirs(wd, exist_ok=True)
    out_path = os.path.join(wd, os.path.basename(cfg).replace(".cfg", "") + ".out")
    meta = os.path.join(wd, "md_" + os.path.basename(cfg).replace(".cfg", ""))
    cmd = ["timeout", str(timeout), "tlc", "-workers", str(workers or TLC_WORKERS), "-metadir", meta, "-cleanup",
           "-noGenerateSpecTE", "-config", os.path.join(SPEC, cfg)]
    if simulate:
        cmd += ["-simulate", simulate]
    if extra:
        cmd += extra
    cmd.append(os.path.join(SPEC, module))
    env = dict(os.environ)
    if java_opts:
        env["JAVA_TOOL_OPTIONS"] = java_opts
    if env_extra:
        env.update(env_extra)
    t0 = time.time()
    with open(out_path, "w") as f:
        r = subprocess.run(cmd, cwd=wd, stdout=f, stderr=subprocess.STDOUT, env=env)
    wall = time.time() - t0
    gen = dist = 0
    violated = None
    errors = []
    finished = False
    with open(out_path, errors="replace") as f:
        for line in f:
            if line.startswith('"'):
                continue
            m = TLC_STATS.search(line)
            if m:
                gen, dist = int(m.group(1)), int(m.group(2))
            if line.startswith("Error:"):
                errors.append(line.strip())
                m2 = re.search(r"Invariant (\S+) is violated", line)
                if m2:
                    violated = m2.group(1)
            if "Model checking completed" in line or "Finished in" in line:
                finished = True
    import shutil
    shutil.rmtree(meta, ignore_errors=True)
    if r.returncode == 124:
        raise ToolError("TLC timed out after %ds on %s" % (timeout, cfg))
    return dict(out_path=out_path, generated=gen, distinct=dist, rc=r.returncode, errors=errors,
                violated=violated, finished=finished, wall=wall)


def tlc_require_clean(res, what):
    if res["errors"] or res["rc"] != 0:
        raise ToolError("TLC reported a problem in %s (rc=%d): %s -- see %s" %
                        (what, res["rc"], "; ".join(res["errors"][:3]), res["out_path"]))


def extract_json_lines(out_path, dst):
    """TLC prints each ToJson string as a quoted TLA+ string literal on its own line."""
    n = 0
    with open(out_path, errors="replace") as f, open(dst, "w") as o:
        for line in f:
            if line.startswith('"{') or line.startswith('"['):
                try:
                    o.write(json.loads(line) + "\n")
                    n += 1
                except Exception:
                    pass
    return n


# ----------------------------------------------------------------------------------------------
# known findings
# ----------------------------------------------------------------------------------------------
def load_known(prop):
    if not os.path.exists(KNOWN):
        return []
    data = json.load(open(KNOWN))
    return [k for k in data.get("findings", []) if k.get("property") == prop]


def match_known(sig, known):
    for k in known:
        if str(k.get("status", "known")).startswith("fixed"):
            continue  # a fixed entry suppresses nothing
        pat = k["signature"]
        if pat == sig or (("*" in pat or "?" in pat) and fnmatch.fnmatchcase(sig, pat)):
            return k
    return None


# set by `./check <Cnn> --replay <file>`: the check is re-run and only asked whether this signature shows again
REPLAY = {"sig": None, "path": None, "found": False}


def write_replay(prop, sig, payload, tier=None):
    d = os.path.join(REPLAYS, prop)
    os.makedirs(d, exist_ok=True)
    h = hashlib.sha1(sig.encode()).hexdigest()[:12]
    path = os.path.join(d, h + ".json")
    with open(path, "w") as f:
        json.dump({"property": prop, "signature": sig, "tier": tier, "replay": payload}, f, indent=1)
    return path


def report(prop, tier, level, violations, coverage, assumptions, t0, extra_known_lines=None):
    """violations: list of dict(sig, replay, detail?). Prints KNOWN-FINDING / VIOLATION lines,
    writes evidence, returns the exit code."""
    if REPLAY["sig"] is not None:       # replay mode: no evidence, no replay files, one question
        hit = [v for v in violations if v["sig"] == REPLAY["sig"]]
        REPLAY["found"] = bool(hit)
        if hit:
            log(json.dumps(hit[0].get("replay"), ensure_ascii=False)[:1500])
            log("VIOLATION property=%s replay=%s  (%s reproduced, %d case(s), %s tier)" % (prop, REPLAY["path"], REPLAY["sig"], len(hit), tier))
            return 1
        log("not reproduced in the %s tier: %s" % (tier, REPLAY["sig"]))
        return 0
    known = load_known(prop)
    by_sig = {}
    for v in violations:
        by_sig.setdefault(v["sig"], []).append(v)
    new = []
    known_hit = {}
    for sig, vs in by_sig.items():
        k = match_known(sig, known)
        if k is not None:
            known_hit.setdefault(k["signature"], [k, 0])
            known_hit[k["signature"]][1] += len(vs)
        else:
            new.append((sig, vs))
    for pat, (k, n) in sorted(known_hit.items()):
        log("KNOWN-FINDING: property=%s %s -- %s (%d case(s) this run)" % (prop, pat, k.get("what_fails", ""), n))
    for sig, vs in sorted(new):
        path = write_replay(prop, sig, vs[0].get("replay"), tier)
        log("VIOLATION property=%s replay=%s  (%s, %d case(s))" % (prop, path, sig, len(vs)))
    coverage = dict(coverage)
    coverage["known_findings_hit"] = sorted(known_hit.keys())
    coverage["new_violation_signatures"] = [s for s, _ in sorted(new)][:200]
    ev = {
        "property_id": prop,
        "tier": tier,
        "seed": seed(),
        "level": level,
        "coverage": coverage,
        "assumptions": assumptions,
        "wall_s": round(time.time() - t0, 2),
        "violations": len(new),
    }
    os.makedirs(EVIDENCE, exist_ok=True)
    with open(os.path.join(EVIDENCE, prop + ".json"), "w") as f:
        json.dump(ev, f, indent=1)
    return 1 if new else 0
