"""./check selftest -- demonstrate that the trace specifications are bound to the implementation:
each genuine recorded trace is accepted, and each corruption of it (one field changed, one hook
event removed, one stage dropped) is rejected -- either no action of the specification explains a
line (UNEXPLAINED) or a deviation action has to be taken and the run is reported.

Exit 0: every genuine sample accepted and every corruption rejected; exit 2 otherwise."""
import json
import os
import time

import msglevel
from common import ToolError, WORK, build_harness, log, workdir

# (property whose quick check records the trace, file in its work dir, module, cfg)
SOURCES = [
    ("C01", "traces.ndjson", "CursorTrace.tla", "CursorTrace.cfg"),
    ("C07", "traces.ndjson", "Session.tla", "Session.cfg"),
    ("C13", "traces.ndjson", "ValidateTrace.tla", "ValidateTrace.cfg"),
    ("C15", "traces.ndjson", "Pipeline.tla", "Pipeline.cfg"),
    ("C16", "trk_traces.ndjson", "TrackerTrace.tla", "TrackerTrace.cfg"),
]


def sample_runs(path, max_runs, want=None):
    """first max_runs runs (begin..end) satisfying want(run_lines)"""
    runs, cur = [], []
    with open(path) as f:
        for line in f:
            d = json.loads(line)
            if d.get("e") == "begin":
                cur = []
            cur.append(d)
            if d.get("e") == "end":
                if want is None or want(cur):
                    runs.append(cur)
                    if len(runs) >= max_runs:
                        break
                cur = []
    return runs


def write(path, runs):
    with open(path, "w") as f:
        for r in runs:
            for d in r:
                f.write(json.dumps(d) + "\n")


def verdict(wd, path, module, cfg):
    """'accepted' | 'flagged:<n>' | 'unexplained'"""
    try:
        tv = msglevel.validate_traces(wd, path, cfg=cfg, module=module)
    except ToolError:
        return "unexplained"
    return "accepted" if not tv["results"] else "flagged:%d" % len(tv["results"])


def clone(runs):
    return json.loads(json.dumps(runs))


# ---- corruptions: each takes the genuine runs and returns (name, corrupted runs) or None ----------
def cursor_corruptions(runs):
    out = []
    acc = [i for i, r in enumerate(runs) if r[-1].get("res") == "accepted" and sum(1 for d in r if d["e"] == "extract" and d["res"] == "found") >= 2]
    if acc:
        i = acc[0]
        c = clone(runs)   # field corrupted: the cursor after a successful extract is one further than the field taken
        for d in c[i]:
            if d["e"] == "extract" and d["res"] == "found":
                d["to"] += 1
                break
        out.append(("CursorTrace: 'to' of one extract event +1 (field skipped)", c))
        c = clone(runs)   # hook removed: one extract event missing from an accepted run
        k = [j for j, d in enumerate(c[i]) if d["e"] == "extract" and d["res"] == "found"][0]
        del c[i][k]
        out.append(("CursorTrace: one extract event removed", c))
        c = clone(runs)   # outcome corrupted: the accepted message's serialisation lost its last field
        c[i][-1]["out"] = c[i][-1]["out"][:-1]
        out.append(("CursorTrace: last field missing from the recorded serialisation", c))
        c = clone(runs)   # a found field reported at a position where the tag does not stand
        for d in c[i]:
            if d["e"] == "extract" and d["res"] == "found":
                d["tag"] = "99Z"
                break
        out.append(("CursorTrace: extract reports a tag that is not at the cursor", c))
    rej = [i for i, r in enumerate(runs) if r[-1].get("res") == "rejected" and r[0].get("exp") == "reject"]
    if rej:
        c = clone(runs)
        c[rej[0]][-1]["res"] = "accepted"
        c[rej[0]][-1]["out"] = c[rej[0]][0]["toks"][:1]
        out.append(("CursorTrace: rejected run recorded as accepted", c))
    return out


def session_corruptions(runs):
    out = []
    c = clone(runs)
    for d in c[0]:
        if d["e"] == "call":
            d["res"], d["where"] = "panic", "src/x.rs:1"
            break
    out.append(("Session: one call answers 'panic'", c))
    c = clone(runs)
    for d in c[0]:
        if d["e"] == "call":
            d["res"] = "timeout"
            break
    out.append(("Session: one call answers 'timeout'", c))
    # a call that needs a message although none was obtained
    i = [k for k, r in enumerate(runs) if any(d["e"] == "call" and d["op"] in ("parse_typed", "field_parse", "header_parse") and d["res"] == "err" for d in r)]
    if i:
        c = clone(runs)
        r = c[i[0]]
        k = [j for j, d in enumerate(r) if d["e"] == "call" and d["res"] == "err"][0]
        r.insert(k + 1, {"e": "call", "op": "serialise", "res": "ok", "where": ""})
        out.append(("Session: serialise recorded although no message was obtained", c))
    c = clone(runs)
    for d in c[0]:
        if d["e"] == "call":
            d["op"] = "undocumented_entry_point"
            break
    out.append(("Session: call of an operation the specification does not know", c))
    c = clone(runs)
    for d in c[0]:
        if d["e"] == "call" and d["op"] in ("serialise", "to_json", "field_serialise", "header_display", "validate_full"):
            d["res"] = "err"
            out.append(("Session: an operation without error channel answers 'err'", c))
            break
    return out


def validate_corruptions(runs):
    out = []
    nonempty = [i for i, r in enumerate(runs) if any(d["e"] == "rules" and not d["stop"] and d["errs"] for d in r)]
    if nonempty:
        i = nonempty[0]
        c = clone(runs)
        for d in c[i]:
            if d["e"] == "rules" and d["stop"]:
                d["errs"] = ["ZZZ"]
        out.append(("ValidateTrace: stop-on-first result is not a prefix of the full result", c))
        c = clone(runs)
        for d in c[i]:
            if d["e"] == "rules" and d["stop"]:
                d["errs"] = []
        out.append(("ValidateTrace: stop-on-first result empty while the full result is not", c))
        c = clone(runs)
        for d in c[i]:
            if d["e"] == "adapter":
                d["valid"] = True
                break
        out.append(("ValidateTrace: adapter verdict 'valid' with errors present", c))
    c = clone(runs)
    for d in c[0]:
        if d["e"] == "end":
            d["unchanged"] = False
    out.append(("ValidateTrace: message changed by validation", c))
    return out


def pipeline_corruptions(runs):
    out = []
    c = clone(runs)
    c[0] = [d for d in c[0] if d["e"] != "validate"]
    out.append(("Pipeline: validate stage missing", c))
    c = clone(runs)
    for d in c[0]:
        if d["e"] == "publish":
            d["toks"] = d["toks"][1:]
    out.append(("Pipeline: published message lost its first field", c))
    c = clone(runs)
    for d in c[0]:
        if d["e"] == "parse":
            d["equal"], d["where"] = False, "fields.20.reference"
    out.append(("Pipeline: parsed JSON differs from generated JSON", c))
    c = clone(runs)
    for d in c[0]:
        if d["e"] == "validate":
            d["valid"], d["n"], d["first"] = False, 1, "T26"
    out.append(("Pipeline: validation error on a shipped scenario", c))
    c = clone(runs)
    k = [j for j, d in enumerate(c[0]) if d["e"] == "publish"][0]
    g = [j for j, d in enumerate(c[0]) if d["e"] == "generate"][0]
    c[0][k], c[0][g] = c[0][g], c[0][k]
    out.append(("Pipeline: stages out of order", c))
    return out


def tracker_corruptions(runs):
    out = []
    hit = [i for i, r in enumerate(runs) if any(d["e"] == "get" and d.get("res", -1) >= 0 for d in r)]
    if hit:
        c = clone(runs)
        for d in c[hit[0]]:
            if d["e"] == "get" and d["res"] >= 0:
                d["res"] += 1
                break
        out.append(("TrackerTrace: a lookup answers the position after the right one", c))
        c = clone(runs)
        for d in c[hit[0]]:
            if d["e"] == "get" and d["res"] >= 0:
                d["res"] = -1
                break
        out.append(("TrackerTrace: a lookup misses a field that is present", c))
    # the splitters: a synthetic run in the recorded format (the split traces are not kept on disk), first
    # genuine-looking (must be accepted), then with one occurrence lost / one item without its marker
    rid = max((r[0].get("id", 0) for r in runs), default=0) + 1
    def split_run(i, split, rsplit):
        return [{"e": "begin", "id": rid + i, "map": []}, dict({"e": "split", "cfg": "MT101"}, **split),
                dict({"e": "rsplit", "cfg": "MT101"}, **rsplit), {"e": "end"}]
    good_s = {"n": 5, "na": 2, "nb": 3, "nc": 0, "dup": 0, "lost": 0, "invented": 0}
    good_r = {"expected": 3, "total": 3, "items": 1, "markers": 1, "dup": 0, "invented": 0, "disorder": 0, "headless": 0}
    out.append(("TrackerTrace: a well-formed split / item record (control: must be accepted)", clone(runs) + [split_run(0, good_s, good_r)], "accepted"))
    out.append(("TrackerTrace: split_into_sequences loses one occurrence", clone(runs) + [split_run(1, dict(good_s, nb=2, lost=1), good_r)]))
    out.append(("TrackerTrace: parse_repetitive_sequence drops the last item", clone(runs) + [split_run(2, good_s, dict(good_r, total=0, items=0))]))
    out.append(("TrackerTrace: an item does not open with its marker", clone(runs) + [split_run(3, good_s, dict(good_r, headless=1))]))
    return out


CORRUPT = {"CursorTrace.tla": cursor_corruptions, "Session.tla": session_corruptions, "ValidateTrace.tla": validate_corruptions,
           "Pipeline.tla": pipeline_corruptions, "TrackerTrace.tla": tracker_corruptions}


def run():
    import props
    build_harness()
    wd = workdir("selftest")
    rows, bad = [], 0
    for prop, fname, module, cfg in SOURCES:
        src = os.path.join(WORK, "%s-quick" % prop, fname)
        if not os.path.exists(src):
            log("[selftest] recording a trace for %s.." % module)
            props.CHECKS[prop]("quick", time.time())
        if not os.path.exists(src):
            raise ToolError("no recorded trace %s" % src)
        runs = sample_runs(src, 400)
        # keep the genuine runs that the specification accepts without a reported deviation
        base = os.path.join(wd, "base_%s.ndjson" % module[:-4])
        write(base, runs)
        v = verdict(wd, base, module, cfg)
        if v.startswith("flagged"):
            tv = msglevel.validate_traces(wd, base, cfg=cfg, module=module)
            flagged = {r["id"] for r in tv["results"]}
            runs = [r for r in runs if r[0].get("id") not in flagged]
            write(base, runs)
            v = verdict(wd, base, module, cfg)
        rows.append((module, "genuine trace (%d runs)" % len(runs), v, v == "accepted"))
        if v != "accepted":
            bad += 1
            continue
        for exp in CORRUPT[module](runs):
            name, c = exp[0], exp[1]
            want_accepted = len(exp) > 2 and exp[2] == "accepted"
            p = os.path.join(wd, "corrupt.ndjson")
            write(p, c)
            v = verdict(wd, p, module, cfg)
            ok = (v == "accepted") if want_accepted else (v != "accepted")
            bad += 0 if ok else 1
            rows.append((module, name, v, ok))
    for module, name, v, ok in rows:
        print("%-8s %-72s -> %s" % ("ok" if ok else "MISSED", name, v))
    print("selftest: %d trace experiments, %d not as required" % (len(rows), bad))
    json.dump([{"module": m, "experiment": n, "verdict": v, "as_required": ok} for m, n, v, ok in rows],
              open(os.path.join(wd, "report.json"), "w"), indent=1)
    return 0 if bad == 0 else 2
