"""Message-level pipeline shared by C01 C02 C03 C09: TLC (MessageParse) -> cases -> harness replay
(+ hook traces) -> TLC (CursorTrace)."""
import json
import os
import time

from common import (ToolError, extract_json_lines, log, run_harness, run_tlc, tlc_require_clean, workdir)

TRACE_JAVA = "-Xss1g -Dtlc2.tool.queue.IStateQueue=StateDeque"


def tier_params(tier):
    if tier == "thorough":
        return dict(cfg="MC_MessageParse_thorough.cfg", trace_every=25, policies=4, tlc_timeout=3000, trace_max=80)
    return dict(cfg="MC_MessageParse_quick.cfg", trace_every=4, policies=3, tlc_timeout=900, trace_max=60)


def validate_traces(wd, traces_path, cfg="CursorTrace.cfg", module="CursorTrace.tla"):
    """Run TLC on a recorded ndjson trace. Returns dict(results, lines, states, generated, unexplained)."""
    if not os.path.exists(traces_path) or os.path.getsize(traces_path) == 0:
        return dict(results=[], lines=0, states=0, generated=0, unexplained=None, runs=0)
    res = run_tlc(module, cfg, wd, workers=1, timeout=1800, java_opts=TRACE_JAVA,
                  env_extra={"TRACE": traces_path})
    results, lines, unexplained = None, 0, None
    with open(res["out_path"], errors="replace") as f:
        for line in f:
            if line.startswith('"{'):
                try:
                    d = json.loads(json.loads(line))
                    results, lines = d.get("results", []), d.get("lines", 0)
                except Exception:
                    pass
            if "UNEXPLAINED" in line:
                unexplained = line.strip()[:600]
    if unexplained or res["errors"] or results is None:
        raise ToolError("trace validation: a recorded line is not explained by the specification (%s) -- see %s; %s"
                        % (cfg, res["out_path"], unexplained or "; ".join(res["errors"][:2])))
    return dict(results=results, lines=lines, states=res["distinct"], generated=res["generated"],
                unexplained=None, wall=res["wall"])


def run_pipeline(prop, tier):
    """Returns dict with tlc stats, harness summary (all message-level props) and trace results."""
    p = tier_params(tier)
    wd = workdir("%s-%s" % (prop, tier))
    t0 = time.time()
    mc = run_tlc("MC_MessageParse.tla", p["cfg"], wd, timeout=p["tlc_timeout"])
    if mc["violated"]:
        raise ToolError("design-level invariant %s violated in MessageParse (the reference model itself is wrong) -- %s"
                        % (mc["violated"], mc["out_path"]))
    tlc_require_clean(mc, "MessageParse")
    cases = os.path.join(wd, "cases.ndjson")
    n = extract_json_lines(mc["out_path"], cases)
    if n == 0:
        raise ToolError("TLC emitted no behaviours")
    log("[%s] TLC MessageParse: %d distinct states, %d behaviours, %.0fs" % (prop, mc["distinct"], n, mc["wall"]))
    out = os.path.join(wd, "msg_out.json")
    traces = os.path.join(wd, "traces.ndjson")
    # boundary-shaped field contents from the FieldFormats shape space (content policies >= 2)
    ff = run_tlc("MC_FieldFormats.tla", "FieldFormats_quick.cfg", wd, timeout=1500)
    tlc_require_clean(ff, "FieldFormats")
    pool = os.path.join(wd, "field_pool.ndjson")
    extract_json_lines(ff["out_path"], pool)
    os.remove(ff["out_path"])
    _, hw = run_harness(["msg", "--cases", cases, "--out", out, "--traces", traces, "--pool", pool, "--embed", pool,
                         "--trace-every", str(p["trace_every"]), "--policies", str(p["policies"]),
                         "--trace-max-toks", str(p["trace_max"])])
    summary = json.load(open(out))
    log("[%s] harness: %d executions, %d traces (%d events), %.0fs" %
        (prop, summary["total_executions"], summary["traces"], summary["trace_events"], hw))
    tv = validate_traces(wd, traces)
    log("[%s] TLC CursorTrace: %d lines explained, %d runs flagged, %.0fs" %
        (prop, tv["lines"], len(tv["results"]), tv.get("wall", 0)))
    os.remove(mc["out_path"])
    if tier == "thorough":      # the thorough files are large: keep only the summary
        for f in (cases, traces):
            try:
                os.remove(f)
            except OSError:
                pass
    return dict(mc=mc, ncases=n, summary=summary, trace=tv, wall=time.time() - t0, wd=wd, cfg=p["cfg"])
