SPECIFICATION Spec
CONSTANTS
  MaxDepth = 5
  EmitCases = TRUE
VIEW View
INVARIANTS Inv ConsumedSane
ACTION_CONSTRAINT Emit
CHECK_DEADLOCK FALSE
