SPECIFICATION Spec
CONSTANTS
  MaxTags = 1
  EmitCases = TRUE
INVARIANTS ScanTotal ValuesDoNotMoveBoundaries Emit
CHECK_DEADLOCK FALSE
