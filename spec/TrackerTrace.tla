---------------------------- MODULE TrackerTrace ----------------------------
(***************************************************************************)
(* Validates histories recorded from the real FieldConsumptionTracker,     *)
(* find_field_with_variant_sequential_constrained and split_into_sequences *)
(* against Tracker.tla.  Each logged call must be an instance of the       *)
(* corresponding action WITH THE LOGGED RESULT; a result the contract does *)
(* not allow is filed as a deviation of that run (C16 violation).          *)
(***************************************************************************)
EXTENDS Tracker, TLC, Json, IOUtils, Integers

Rec == ndJsonDeserialize(IOEnv.TRACE)

VARIABLES l, run, dev, results

allvars == <<tvars, l, run, dev, results>>

E == Rec[l]
IsEvent(name) == l <= Len(Rec) /\ E.e = name /\ l' = l + 1
ToSeq(sq) == [i \in 1..Len(sq) |-> sq[i]]
ToSet(sq) == {sq[i] : i \in 1..Len(sq)}
O(b, lt, p) == [b |-> b, l |-> lt, pos |-> p]

TraceInit == TInit(<<>>) /\ l = 1 /\ run = -1 /\ dev = {} /\ results = <<>>

Flush == IF dev # {} \/ ~(ExactlyOnce /\ InOrderPerTag /\ NothingInvented)
         THEN Append(results, [id |-> run, dev |-> dev \cup
                                 (IF ~ExactlyOnce THEN {"HandedOutTwice"} ELSE {}) \cup
                                 (IF ~InOrderPerTag THEN {"OutOfOrderWithinTag"} ELSE {}) \cup
                                 (IF ~NothingInvented THEN {"Invented"} ELSE {})])
         ELSE results

Begin ==
  /\ IsEvent("begin")
  /\ results' = IF run >= 0 THEN Flush ELSE results
  /\ occ' = [i \in 1..Len(E.map) |-> O(E.map[i].b, E.map[i].l, E.map[i].pos)]
  /\ consumed' = {} /\ given' = <<>> /\ run' = E.id /\ dev' = {}

EvGet ==
  /\ IsEvent("get")
  /\ LET want == NextOf(E.b, E.l)
         got  == IF E.res < 0 THEN {} ELSE {O(E.b, E.l, E.res)} IN
       dev' = IF got = want THEN dev ELSE dev \cup {"WrongNext"}
  /\ UNCHANGED <<tvars, run, results>>

EvMark ==
  /\ IsEvent("mark") /\ Mark(O(E.b, E.l, E.pos))
  /\ UNCHANGED <<run, dev, results>>

EvConsume ==       \* get-then-mark idiom: consumes what get returned
  /\ IsEvent("consume")
  /\ LET want == NextOf(E.b, E.l)
         got  == IF E.res < 0 THEN {} ELSE {O(E.b, E.l, E.res)} IN
       /\ dev' = IF got = want THEN dev ELSE dev \cup {"WrongNext"}
       /\ consumed' = consumed \cup got
       /\ given' = IF got = {} THEN given ELSE Append(given, O(E.b, E.l, E.res))
  /\ UNCHANGED <<occ, run, results>>

EvFind ==
  /\ IsEvent("find")
  /\ LET V   == ToSet(E.v)
         adm == Admissible(E.b, V)
         got == IF E.res < 0 THEN {} ELSE {O(E.b, E.rl, E.res)} IN
       /\ dev' = dev \cup
                 (IF got = {} /\ adm # {} THEN {"MissedCandidate"} ELSE {}) \cup
                 (IF got # {} /\ ~(got \subseteq adm) THEN
                     (IF got \subseteq Occs THEN {"NotNextOrNotAdmissible"} ELSE {"Invented"}) ELSE {}) \cup
                 (IF got # {} /\ E.val # E.expval THEN {"WrongValue"} ELSE {})
       /\ consumed' = consumed \cup got
       /\ given' = IF got = {} THEN given ELSE Append(given, O(E.b, E.rl, E.res))
  /\ UNCHANGED <<occ, run, results>>

(* split_into_sequences: the harness logs how the occurrences were distributed *)
EvSplit ==
  /\ IsEvent("split")
  /\ dev' = dev \cup (IF E.na + E.nb + E.nc = E.n /\ E.dup = 0 /\ E.lost = 0 /\ E.invented = 0
                      THEN {} ELSE {"SplitNotAPartition"})
  /\ UNCHANGED <<tvars, run, results>>

(* parse_repetitive_sequence: the occurrences from the first marker on are dealt out to the items -- each to exactly
   one item, none invented, one item per marker, every item opening with its marker, items in input order *)
EvRSplit ==
  /\ IsEvent("rsplit")
  /\ dev' = dev \cup (IF E.total = E.expected /\ E.items = E.markers /\ E.dup = 0 /\ E.invented = 0
                            /\ E.disorder = 0 /\ E.headless = 0
                      THEN {} ELSE {"ItemsNotAPartition"})
  /\ UNCHANGED <<tvars, run, results>>

EvEnd ==
  /\ IsEvent("end")
  /\ results' = Flush /\ run' = -1 /\ dev' = {}
  /\ UNCHANGED tvars

TraceNext == Begin \/ EvGet \/ EvMark \/ EvConsume \/ EvFind \/ EvSplit \/ EvRSplit \/ EvEnd
TraceSpec == TraceInit /\ [][TraceNext]_allvars

Report == (l = Len(Rec) + 1) => PrintT(ToJson([results |-> results, lines |-> Len(Rec)]))
AllLinesExplained ==
  IF TLCGet("stats").diameter - 1 = Len(Rec) THEN TRUE
  ELSE PrintT(<<"UNEXPLAINED", TLCGet("stats").diameter, Rec[TLCGet("stats").diameter]>>) /\ FALSE
=============================================================================
