------------------------------- MODULE Walker -------------------------------
(***************************************************************************)
(* The reference acceptor for block-4 token sequences: a deterministic     *)
(* LL(1)-on-the-tag matcher over the layout table.  "A token belongs to    *)
(* the first item at or after the cursor that admits it; at the end of a   *)
(* sequence body a token of the body's first-set starts the next           *)
(* repetition."                                                            *)
(*                                                                         *)
(* Walker state  w = [pc, rep, rcnt]                                       *)
(*   pc   index of the current layout item (Len+1 = past the end)          *)
(*   rep  completed repetitions of the enclosing / pending sequence        *)
(*   rcnt occurrences already consumed by the repeatable item at pc        *)
(*                                                                         *)
(* Advance(L, w, tag, ok) consumes ONE token and returns                   *)
(*   [res |-> "ok", w |-> w']  or  [res |-> "reject", kind, tag]           *)
(* Finish(L, w) is the verdict at end of input.                            *)
(* Both are used unchanged by MessageParse (design-level model checking    *)
(* and case generation) and by CursorTrace (validation of traces recorded  *)
(* from the implementation).                                               *)
(***************************************************************************)
EXTENDS Layouts

W0 == [pc |-> 1, rep |-> 0, rcnt |-> 0]

Ok(w)          == [res |-> "ok", w |-> w, kind |-> "", tag |-> ""]
Rej(kind, tag) == [res |-> "reject", w |-> W0, kind |-> kind, tag |-> tag]

(* tags that can start the (rest of the) body beginning at item i *)
RECURSIVE FirstFrom(_, _)
FirstFrom(L, i) ==
  IF i > Len(L) \/ L[i].k \in {"LE", "LB"} THEN {}
  ELSE IF L[i].min >= 1 THEN Range(L[i].tags)
  ELSE Range(L[i].tags) \cup FirstFrom(L, i + 1)

(* base tag of the first mandatory item of the body beginning at item i *)
RECURSIVE FirstMandatory(_, _)
FirstMandatory(L, i) ==
  IF i > Len(L) \/ L[i].k \in {"LE", "LB"} THEN "?"
  ELSE IF L[i].min >= 1 THEN L[i].fam
  ELSE FirstMandatory(L, i + 1)

RECURSIVE Advance(_, _, _, _)
Advance(L, w, tag, ok) ==
  IF w.pc > Len(L) THEN Rej("unexpected", tag)
  ELSE LET it == L[w.pc] IN
    CASE it.k \in {"F", "O", "R"} ->
           IF tag \in Range(it.tags)
           THEN IF w.rcnt >= it.max THEN Rej("toomany", tag)
                ELSE IF ~ok THEN Rej("invalid", tag)
                ELSE IF it.k = "R"
                     THEN Ok([w EXCEPT !.rcnt = @ + 1])
                     ELSE Ok([w EXCEPT !.pc = @ + 1, !.rcnt = 0])
           ELSE IF w.rcnt < it.min THEN Rej("missing", it.fam)
                ELSE Advance(L, [w EXCEPT !.pc = @ + 1, !.rcnt = 0], tag, ok)
      [] it.k = "LB" ->
           IF tag \in FirstFrom(L, w.pc + 1)
           THEN IF w.rep >= it.max THEN Rej("toomany", tag)
                ELSE Advance(L, [w EXCEPT !.pc = @ + 1, !.rcnt = 0], tag, ok)
           ELSE IF w.rep < it.min THEN Rej("missingseq", FirstMandatory(L, w.pc + 1))
                ELSE Advance(L, [pc |-> EndOf(L, w.pc) + 1, rep |-> 0, rcnt |-> 0], tag, ok)
      [] it.k = "LE" ->
           Advance(L, [pc |-> BeginOf(L, w.pc), rep |-> w.rep + 1, rcnt |-> 0], tag, ok)

RECURSIVE Finish(_, _)
Finish(L, w) ==
  IF w.pc > Len(L) THEN [res |-> "accept", kind |-> "", tag |-> ""]
  ELSE LET it == L[w.pc] IN
    CASE it.k \in {"F", "O", "R"} ->
           IF w.rcnt < it.min THEN [res |-> "reject", kind |-> "missing", tag |-> it.fam]
           ELSE Finish(L, [w EXCEPT !.pc = @ + 1, !.rcnt = 0])
      [] it.k = "LB" ->
           IF w.rep < it.min
           THEN [res |-> "reject", kind |-> "missingseq", tag |-> FirstMandatory(L, w.pc + 1)]
           ELSE Finish(L, [pc |-> EndOf(L, w.pc) + 1, rep |-> 0, rcnt |-> 0])
      [] it.k = "LE" ->
           Finish(L, [pc |-> BeginOf(L, w.pc), rep |-> w.rep + 1, rcnt |-> 0])

(* whole-sequence verdict (used for lemmas and by the trace spec's final check) *)
RECURSIVE WalkFrom(_, _, _, _)
WalkFrom(L, w, toks, i) ==
  IF i > Len(toks) THEN Finish(L, w)
  ELSE LET r == Advance(L, w, toks[i].tag, toks[i].ok) IN
       IF r.res = "ok" THEN WalkFrom(L, r.w, toks, i + 1)
       ELSE [res |-> "reject", kind |-> r.kind, tag |-> r.tag]

Walk(L, toks) == WalkFrom(L, W0, toks, 1)

(* ------------------------------------------------------------------------ *)
(* LL(1) sanity of the table: at no reachable item do two candidate items   *)
(* that the greedy rule could confuse admit the same tag in a way that      *)
(* changes the language.  We check the concrete property the generator      *)
(* relies on: inside one run of skippable items, a tag admitted by an       *)
(* earlier item is never also REQUIRED by a later mandatory item of the     *)
(* same run before any other token could intervene -- i.e. the generator's  *)
(* own walks are always accepted (UnmutatedAccepted in MessageParse).       *)
(* ------------------------------------------------------------------------ *)
=============================================================================
