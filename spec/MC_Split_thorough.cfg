SPECIFICATION Spec
CONSTANTS
  MaxLen = 5
  EmitCases = TRUE
INVARIANTS Emit
CHECK_DEADLOCK FALSE
