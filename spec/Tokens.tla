------------------------------- MODULE Tokens -------------------------------
(***************************************************************************)
(* Block-4 text as a sequence of lines, and the reference tokeniser.       *)
(*                                                                         *)
(* Line classes (abstract; the harness concretises them):                  *)
(*   [k |-> "T", tag, txt]   ":tag:txt"   opens a field (txt may be "")    *)
(*   [k |-> "C",  txt]       continuation line of the current field; txt   *)
(*                           classes: "plain", "colon" (starts with ':'    *)
(*                           but is no field marker), "marker" (contains   *)
(*                           ":20:" in mid-line), "dashy" ("-TEXT")        *)
(*   [k |-> "D"]             "-"  block terminator                         *)
(*   [k |-> "B"]             blank line                                    *)
(*   [k |-> "J"]             text before the first field (junk)            *)
(*                                                                         *)
(* ScanLine consumes one line; the tokeniser state is                      *)
(*   toks   finished fields, each [tag, body] with body = Seq of line txt  *)
(*   open   TRUE while a field is being collected                          *)
(*   ended  TRUE once the terminator was seen (everything after ignored)   *)
(* The same operator `Tok` is implemented by harness/src/tok.rs.           *)
(***************************************************************************)
EXTENDS Naturals, Sequences

TrimBlank(body) ==     \* drop trailing blank lines of a field body (keep the first line)
  LET RECURSIVE T(_)
      T(b) == IF Len(b) > 1 /\ b[Len(b)] = "" THEN T(SubSeq(b, 1, Len(b) - 1)) ELSE b
  IN T(body)

ScanInit == [toks |-> <<>>, open |-> FALSE, ended |-> FALSE, junk |-> FALSE]

Close(st) == IF st.open
             THEN [st EXCEPT !.toks[Len(st.toks)].body = TrimBlank(@), !.open = FALSE]
             ELSE st

ScanLine(st, ln) ==
  IF st.ended THEN st
  ELSE CASE ln.k = "T" -> LET c == Close(st) IN
                            [c EXCEPT !.toks = Append(@, [tag |-> ln.tag, body |-> <<ln.txt>>]), !.open = TRUE]
         [] ln.k = "C" -> IF st.open THEN [st EXCEPT !.toks[Len(st.toks)].body = Append(@, ln.txt)]
                          ELSE [st EXCEPT !.junk = TRUE]
         [] ln.k = "B" -> IF st.open THEN [st EXCEPT !.toks[Len(st.toks)].body = Append(@, "")] ELSE st
         [] ln.k = "J" -> IF st.open THEN [st EXCEPT !.toks[Len(st.toks)].body = Append(@, ln.txt)]
                          ELSE [st EXCEPT !.junk = TRUE]
         [] ln.k = "D" -> IF st.open THEN [Close(st) EXCEPT !.ended = TRUE]
                          ELSE [st EXCEPT !.junk = TRUE]      \* a dash before the first field is just junk

RECURSIVE ScanFrom(_, _, _)
ScanFrom(st, lines, i) == IF i > Len(lines) THEN Close(st) ELSE ScanFrom(ScanLine(st, lines[i]), lines, i + 1)

Tok(lines) == ScanFrom(ScanInit, lines, 1)

(* documented tag normalisation of the public map: the option letter is kept for the
   listed field numbers and dropped for every other number *)
KeepLetter == {"11", "13", "21", "23", "25", "26", "28", "32", "33", "34", "37", "50", "51", "52",
               "53", "54", "55", "56", "57", "58", "59", "60", "62", "71", "77", "90"}
=============================================================================
