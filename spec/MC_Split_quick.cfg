SPECIFICATION Spec
CONSTANTS
  MaxLen = 4
  EmitCases = TRUE
INVARIANTS Emit
CHECK_DEADLOCK FALSE
