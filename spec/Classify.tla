------------------------------ MODULE Classify ------------------------------
(***************************************************************************)
(* Reject / return / cover / STP classification of a parsed message and    *)
(* the processing method the parse plugin derives from it.                 *)
(*                                                                         *)
(* Abstract message: its type, the set of code-word lines in field 72,     *)
(* the block-3 message user reference (tag 108), the block-3 validation    *)
(* flag (tag 119), presence of the cover sequence (MT202 sequence B with   *)
(* 50a/59a) and, for MT103, whether the library's own STP predicate holds. *)
(*                                                                         *)
(* Documented code words: "/REJT/" (reject) and "/RETN/" (return), in      *)
(* field 72 or inside the message user reference.  Everything else in the  *)
(* word alphabet is a look-alike that must NOT classify.                   *)
(***************************************************************************)
EXTENDS Naturals, FiniteSets, TLC, Json

CONSTANTS MaxWords, EmitCases

Types72   == {"103", "202", "205"}          \* types with the classification
Type79    == "199"                          \* free format: MT199 classifies itself by the FIRST line of its narrative (field 79)
OtherType == "200"                          \* a type with field 72 but no classification support
Words == {"/REJT/", "/RETN/", "/RJT/", "/RET/", "REJTBARE", "/rejt/", "/REJTX/", "/COV/", "/COVER/"}
Murs  == {"none", "REJT", "RETN", "MUR12345", "XREJTY"}
Flags == {"none", "REJT", "RETN", "COV", "STP"}

CovSeqs == {"none", "50+59", "50", "59"}
\* lead: field 72 opens with a line that carries no code word, so every code word stands on a later line
VARIABLES mt, words, mur, flag, covseq, lead

vars == <<mt, words, mur, flag, covseq, lead>>

Init ==
  /\ mt \in Types72 \cup {OtherType, Type79}
  /\ words \in {w \in SUBSET Words : Cardinality(w) <= MaxWords}
  /\ mur \in Murs /\ flag \in Flags
  \* the cover sequence (MT202 sequence B): absent, ordering and beneficiary customer, or either one alone --
  \* any field of it makes the sequence present
  /\ lead \in BOOLEAN
  /\ lead => (words # {} /\ mt \in Types72 \cup {OtherType})   \* (MT199 classifies by the start of its first line only)
  /\ covseq \in CovSeqs
  /\ covseq # "none" => mt = "202"
  /\ (flag \in {"REJT", "RETN", "COV"}) => mt \in {"202", "205"}
  /\ (flag = "STP") => mt = "103"
  /\ (mt = Type79) => (Cardinality(words) <= 1 /\ mur = "none" /\ flag = "none")   \* the word stands at the start of line 1
Next == UNCHANGED vars
Spec == Init /\ [][Next]_vars

MurHas(w) == (w = "REJT" /\ mur \in {"REJT", "XREJTY"}) \/ (w = "RETN" /\ mur = "RETN")

Supports == mt \in Types72
RefReject == MurHas("REJT") \/ (Supports /\ "/REJT/" \in words) \/ (mt = Type79 /\ words = {"/REJT/"})
RefReturn == MurHas("RETN") \/ (Supports /\ "/RETN/" \in words) \/ (mt = Type79 /\ words = {"/RETN/"})
RefCover  == (mt = "202" /\ covseq # "none") \/ (mt = "205" /\ (words \cap {"/COV/", "/COVER/"}) # {})

(* method implied by the classifications (lib* = the predicates as the library evaluates
   them; the harness substitutes the library's own answers, which isolates the dispatch) *)
Method(libReject, libReturn, libCover, libStp) ==
  IF ~Supports THEN "normal"
  ELSE IF libReject \/ (mt \in {"202", "205"} /\ flag = "REJT") THEN "reject"
  ELSE IF libReturn \/ (mt \in {"202", "205"} /\ flag = "RETN") THEN "return"
  ELSE IF mt \in {"202", "205"} /\ (libCover \/ flag = "COV") THEN "cover"
  ELSE IF mt = "103" /\ libStp THEN "stp"
  ELSE "normal"

(* design-level properties of the reference classification *)
ReturnOnlyIsNotReject == (words = {"/RETN/"} /\ mur = "none") => (RefReturn \/ ~(Supports \/ mt = Type79)) /\ ~RefReject
LookAlikesDoNotClassify ==
  (words \subseteq {"/RJT/", "/RET/", "REJTBARE", "/rejt/", "/REJTX/"} /\ mur \in {"none", "MUR12345"})
     => ~RefReject /\ ~RefReturn
SameAcrossTypes == \A w \in SUBSET {} : TRUE   \* by construction: RefReject/RefReturn do not mention mt beyond Supports
Precedence == RefReject => Method(RefReject, RefReturn, RefCover, FALSE) \in {"reject", "normal"}

Case == [mt |-> mt, words |-> words, mur |-> mur, flag |-> flag, covseq |-> covseq, lead |-> lead,
         reject |-> RefReject, return |-> RefReturn, cover |-> RefCover]
Emit == EmitCases => PrintT(ToJson(Case))
=============================================================================
