SPECIFICATION TraceSpec
INVARIANTS TraceInv Report
POSTCONDITION AllLinesExplained
CHECK_DEADLOCK FALSE
