SPECIFICATION Spec
CONSTANTS
  MaxDepth = 4
  EmitCases = FALSE
INVARIANTS Inv ConsumedSane
ACTION_CONSTRAINT Emit
CHECK_DEADLOCK FALSE
