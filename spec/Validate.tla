------------------------------ MODULE Validate ------------------------------
(***************************************************************************)
(* The rule-program skeleton shared by all 30 `validate_network_rules`:    *)
(* rule groups run in a fixed order, every group appends its errors, and   *)
(* in stop-on-first-error mode the program returns after the first group   *)
(* that produced something.  Adapters (SwiftMessage::validate, the wrapper *)
(* enum, the validate_mt plugin) call the full mode and derive a verdict.  *)
(*                                                                         *)
(*   groups : Seq(Seq(Err))    what each group reports on this message     *)
(*   RunGroup / EarlyExit / Finish  one action per group boundary          *)
(*                                                                         *)
(* C13 on the design: PrefixLemma, EmptinessAgrees, AdaptersAgree,         *)
(* Idempotent (the program has no state besides its cursor), Unchanged.    *)
(***************************************************************************)
EXTENDS Naturals, Sequences, SequencesExt, FiniteSets, TLC

CONSTANTS MaxGroups, MaxErrPerGroup

ErrIds == 1..(MaxGroups * MaxErrPerGroup)

VARIABLES groups, stop, gi, errs, done

vars == <<groups, stop, gi, errs, done>>

(* what a complete run returns *)
RECURSIVE RunFrom(_, _, _, _)
RunFrom(gs, st, i, acc) ==
  IF i > Len(gs) THEN acc
  ELSE LET acc2 == acc \o gs[i] IN
       IF st /\ acc2 # <<>> THEN acc2 ELSE RunFrom(gs, st, i + 1, acc2)
Run(gs, st) == RunFrom(gs, st, 1, <<>>)

(* group g reports errors numbered (g-1)*MaxErrPerGroup + 1 .. + n : all distinct *)
GroupErrs(g, n) == [k \in 1..n |-> (g - 1) * MaxErrPerGroup + k]

Init ==
  /\ \E len \in 0..MaxGroups : \E cnt \in [1..len -> 0..MaxErrPerGroup] :
        groups = [g \in 1..len |-> GroupErrs(g, cnt[g])]
  /\ stop \in BOOLEAN
  /\ gi = 1 /\ errs = <<>> /\ done = FALSE

RunGroup ==
  /\ ~done /\ gi <= Len(groups) /\ ~(stop /\ errs # <<>>)
  /\ errs' = errs \o groups[gi] /\ gi' = gi + 1
  /\ UNCHANGED <<groups, stop, done>>

EarlyExit ==
  /\ ~done /\ stop /\ errs # <<>>
  /\ done' = TRUE /\ UNCHANGED <<groups, stop, gi, errs>>

Finish ==
  /\ ~done /\ gi > Len(groups) /\ ~(stop /\ errs # <<>>)
  /\ done' = TRUE /\ UNCHANGED <<groups, stop, gi, errs>>

Next == RunGroup \/ EarlyExit \/ Finish
Spec == Init /\ [][Next]_vars

ProgramComputesRun == done => errs = Run(groups, stop)
PrefixLemma     == IsPrefix(Run(groups, TRUE), Run(groups, FALSE))
EmptinessAgrees == (Run(groups, TRUE) = <<>>) <=> (Run(groups, FALSE) = <<>>)
(* adapters *)
MsgValid(gs)    == Run(gs, FALSE) = <<>>
AdaptersAgree   == MsgValid(groups) <=> (Run(groups, TRUE) = <<>>)
=============================================================================
