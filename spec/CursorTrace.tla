---------------------------- MODULE CursorTrace ----------------------------
(***************************************************************************)
(* Trace validation: replays the ndjson log recorded from the real         *)
(* `MessageParser` (hook events, byte offsets already projected onto token *)
(* indices by the harness) against the Cursor specification.  Runs are     *)
(* concatenated; a "begin" event resets the machine, an "end" event closes *)
(* the run and files its verdict in `results`.                             *)
(*                                                                         *)
(* Every line must be explained by exactly one action (POSTCONDITION       *)
(* AllLinesExplained).  Property verdicts per run:                         *)
(*    accepted /\ ~CleanAccept  -> C01 violation, with the loss mechanisms *)
(*    accepted /\ walker rejects -> note (layout disagreement)             *)
(***************************************************************************)
EXTENDS Cursor, Walker, TLC, Json, IOUtils

Rec == ndJsonDeserialize(IOEnv.TRACE)

VARIABLES l, run, wk, results

tvars == <<cvars, l, run, wk, results>>

E == Rec[l]
IsEvent(name) == l <= Len(Rec) /\ E.e = name /\ l' = l + 1

ToSeq(sq) == [i \in 1..Len(sq) |-> sq[i]]

TraceInit ==
  /\ CInit(<<>>, <<>>)
  /\ l = 1 /\ run = [id |-> -1, mt |-> "", ok |-> <<>>, exp |-> ""] /\ wk = [st |-> "ok", w |-> W0]
  /\ results = <<>>

Begin ==
  /\ IsEvent("begin")
  /\ CReset(ToSeq(E.toks), ToSeq(E.fams))
  /\ run' = [id |-> E.id, mt |-> E.mt, ok |-> ToSeq(E.ok), exp |-> E.exp]
  /\ wk' = [st |-> "ok", w |-> W0]
  /\ UNCHANGED results

New ==
  /\ IsEvent("new")
  /\ E.mt = run.mt /\ E.ntok = N
  /\ UNCHANGED <<cvars, run, wk, results>>

Dup ==
  /\ IsEvent("dup") /\ SetDuplicates(E.allow)
  /\ UNCHANGED <<run, wk, results>>

(* the reference walker runs in lock step on the fields the code extracts *)
WalkerStep(i) ==
  IF i > 0 /\ i <= N /\ wk.st = "ok" /\ run.mt \in Types
  THEN LET r == Advance(Layout(run.mt), wk.w, toks[i], TRUE) IN
         IF r.res = "ok" THEN [st |-> "ok", w |-> r.w] ELSE [st |-> r.kind, w |-> wk.w]
  ELSE wk

Extract ==
  /\ IsEvent("extract")
  /\ CASE E.res = "found"     -> /\ ExtractFound(E.tag, E.opt, E.at, E.hit, E.to)
                                 /\ wk' = WalkerStep(E.hit)
       [] E.res = "notfound"  -> ExtractNotFound(E.tag, E.opt, E.at) /\ UNCHANGED wk
       [] E.res = "duplicate" -> ExtractDuplicate(E.tag, E.opt, E.at) /\ UNCHANGED wk
  /\ UNCHANGED <<run, results>>

Invalid ==
  /\ IsEvent("invalid") /\ ContentInvalid(E.tag)
  /\ UNCHANGED <<run, wk, results>>

Variant ==
  /\ IsEvent("variant") /\ DetectVariant(E.base, E.at, E.res)
  /\ UNCHANGED <<run, wk, results>>

Detect ==
  /\ IsEvent("detect") /\ DetectField(E.tag, E.at, E.res)
  /\ UNCHANGED <<run, wk, results>>

Complete ==
  /\ IsEvent("complete") /\ IsComplete(E.at, E.res)
  /\ UNCHANGED <<run, wk, results>>

(* contents the reference marked invalid but the code took without complaint *)
AcceptedInvalid == {i \in 1..N : i <= Len(run.ok) /\ ~run.ok[i] /\ i \notin failed /\
                                  \E j \in 1..Len(taken) : taken[j] = i}

End ==
  /\ IsEvent("end")
  /\ LET fin == IF wk.st = "ok" /\ run.mt \in Types THEN Finish(Layout(run.mt), wk.w).res ELSE "reject"
         mech == LossMechanisms
                  \cup (IF AcceptedInvalid # {} THEN {"InvalidContentAccepted"} ELSE {})
         sameTags == ToSeq(E.out) = toks      \* the serialisation tokenises to the input's tag sequence
         lossy == E.res = "accepted" /\ (~CleanAccept \/ AcceptedInvalid # {} \/ ~E.same \/ ~sameTags)
     IN results' = IF lossy \/ (E.res = "accepted" /\ fin # "accept") \/ E.res = "panic"
                   THEN Append(results, [id |-> run.id, mt |-> run.mt, res |-> E.res, lossy |-> lossy,
                                         mech |-> mech, walker |-> fin, same |-> E.same])
                   ELSE results
  /\ UNCHANGED <<cvars, run, wk>>

TraceNext == Begin \/ New \/ Dup \/ Extract \/ Invalid \/ Variant \/ Detect \/ Complete \/ End

TraceSpec == TraceInit /\ [][TraceNext]_tvars

(* cursor-level sanity evaluated in every state of every recorded run *)
TraceInv == RefConsumesPrefix /\ pos \in 1..(N + 1)

Report == (l = Len(Rec) + 1) => PrintT(ToJson([results |-> results, lines |-> Len(Rec)]))

AllLinesExplained ==
  IF TLCGet("stats").diameter - 1 = Len(Rec) THEN TRUE
  ELSE PrintT(<<"UNEXPLAINED", TLCGet("stats").diameter, Rec[TLCGet("stats").diameter]>>) /\ FALSE
=============================================================================
