------------------------------ MODULE Dispatch ------------------------------
(***************************************************************************)
(* Message-type dispatch.  Eight entry points route a message on the type    *)
(* announced in its application header through five hand-maintained        *)
(* 30-way tables; the typed API checks the announced type against the      *)
(* requested one.                                                          *)
(*                                                                         *)
(*   Call(ep, announced, requested) -> "parsed" | "mismatch" | "unsupported"*)
(*                                                                         *)
(* The reference is one function of (announced, requested); the property   *)
(* (C12) is that every entry point implements exactly this function and    *)
(* that, where the result is "parsed", all entry points produce the value  *)
(* the typed API produces for the announced type.                          *)
(***************************************************************************)
EXTENDS Naturals, FiniteSets, TLC, Json

CONSTANTS EmitCases

TypesN == {101, 103, 104, 107, 110, 111, 112, 190, 191, 192, 196, 199, 200, 202, 204, 205, 210,
           290, 291, 292, 296, 299, 900, 910, 920, 935, 940, 941, 942, 950}
Codes == 0..999
\* "typedCollect" is the error-collecting twin of the typed API (SwiftParser::parse_with_errors::<T>): a second copy
\* of the same steps in the code, the same function of (announced, requested) in the reference
\* "accessor" is the wrapper's table of typed accessors (as_mtNNN / into_mtNNN, 30 + 30 hand-written arms): on an
\* auto-parsed message of the announced type, the accessor of the requested type gives the message exactly when the
\* two are the same type ("parsed"), nothing otherwise ("mismatch"); an unsupported announced type never gets there
EntryPoints == {"typed", "typedCollect", "accessor", "auto", "wrapper", "pluginParse", "pluginPublish", "pluginValidate"}
Typed == {"typed", "typedCollect", "accessor"}

Outcome(ep, announced, requested) ==
  IF ep = "accessor" /\ announced \notin TypesN THEN "unsupported"
  ELSE IF ep \in Typed
  THEN IF announced = requested THEN "parsed" ELSE "mismatch"
  ELSE IF announced \in TypesN THEN "parsed" ELSE "unsupported"

\* dir: the application header announcing the type is an input header or an output header -- the type stands in
\* both, and which of the two it is never matters to the routing
Dirs == {"I", "O"}
VARIABLES ep, announced, requested, dir
vars == <<ep, announced, requested, dir>>
Init == /\ ep \in EntryPoints /\ announced \in Codes /\ dir \in Dirs
        /\ (dir = "O") => ep \in Typed \cup {"auto"}      \* the plugins and the wrapper sit behind auto-detection
        /\ requested \in (IF ep \in Typed THEN TypesN ELSE {0})
Next == UNCHANGED vars
Spec == Init /\ [][Next]_vars

(* design-level statements *)
AllAgree == \A e1, e2 \in EntryPoints \ Typed : Outcome(e1, announced, 0) = Outcome(e2, announced, 0)
OffDiagonalMismatch == (ep \in Typed /\ announced # requested /\ (ep = "accessor" => announced \in TypesN)) => Outcome(ep, announced, requested) = "mismatch"
UnsupportedReported == (ep \notin Typed /\ announced \notin TypesN) => Outcome(ep, announced, 0) = "unsupported"
NeverParsedAsOther == Outcome(ep, announced, requested) = "parsed" =>
                         (announced \in TypesN /\ (ep \in Typed => requested = announced))

Emit == EmitCases => PrintT(ToJson([ep |-> ep, a |-> announced, r |-> requested, dir |-> dir,
                                    out |-> Outcome(ep, announced, requested)]))
=============================================================================
