SPECIFICATION Spec
CONSTANTS
  EmitCases = TRUE
INVARIANTS AllAgree OffDiagonalMismatch UnsupportedReported NeverParsedAsOther Emit
CHECK_DEADLOCK FALSE
