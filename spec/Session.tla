------------------------------- MODULE Session -------------------------------
(***************************************************************************)
(* The public API as a session over one input text: which calls are        *)
(* possible in which state and what they may answer.  Every entry point is *)
(* TOTAL: its result alphabet is {"ok", "err"} -- or just {"ok"} for the   *)
(* operations that have no error channel (serialise, validate, to JSON,    *)
(* render an error).  A recorded call that answers anything else ("panic", *)
(* "timeout") is not an instance of any action: C07 is violated.           *)
(*                                                                         *)
(*   state: msg  = a parsed message is at hand                             *)
(*          err  = an error value is at hand                               *)
(*          json = a JSON value of the message is at hand                  *)
(***************************************************************************)
EXTENDS Integers, Sequences, TLC, Json, IOUtils

Parsers   == {"parse_typed", "parse_auto", "plugin_parse", "plugin_validate", "field_parse", "header_parse",
              "extract_block", "tokenise", "parse_with_errors", "legacy_extract", "extract_block4", "util_parse"}
OnMessage == {"serialise", "validate_full", "validate_stop", "validate_message", "to_json", "field_serialise", "header_display",
              \* the auto-detected wrapper: its own validate, its JSON form, its type and its 30 typed accessors
              "wrapper_validate", "wrapper_to_json", "wrapper_accessors"}
Always    == {"tag_util", "scale"}   \* tag normalisation (total on any string); "scale" = one size-ladder measurement
OnJson    == {"from_json", "publish"}
OnError   == {"display", "debug_report", "brief_message", "format_with_context"}

Allowed(op) == IF op \in Parsers \cup OnJson THEN {"ok", "err"} ELSE {"ok"}
KnownOps  == Parsers \cup OnMessage \cup OnJson \cup OnError \cup Always

Rec == ndJsonDeserialize(IOEnv.TRACE)
VARIABLES l, run, msg, err, json, dev, results
vars == <<l, run, msg, err, json, dev, results>>
E == Rec[l]
IsEvent(name) == l <= Len(Rec) /\ E.e = name /\ l' = l + 1

TraceInit == l = 1 /\ run = -1 /\ msg = FALSE /\ err = FALSE /\ json = FALSE /\ dev = {} /\ results = <<>>

Begin == /\ IsEvent("begin")
         /\ run' = E.id /\ msg' = FALSE /\ err' = FALSE /\ dev' = {}
         /\ json' = (E.kind = "json")        \* a JSON value handed in from outside
         /\ UNCHANGED results

Call ==
  /\ IsEvent("call")
  /\ E.op \in KnownOps
  /\ LET enabled == \/ E.op \in Parsers
                    \/ (E.op \in OnMessage /\ msg)
                    \/ (E.op \in OnJson /\ json)
                    \/ (E.op \in OnError /\ err)
                    \/ E.op \in Always
         total == E.res \in Allowed(E.op) IN
       /\ dev' = dev \cup (IF ~enabled THEN {"CallNotEnabled:" \o E.op} ELSE {})
                     \cup (IF ~total THEN {E.res \o ":" \o E.op \o ":" \o E.where} ELSE {})
       /\ msg'  = IF E.op \in Parsers \cup {"from_json"} THEN (E.res = "ok") ELSE msg
       /\ err'  = IF E.op \in Parsers \cup OnJson THEN (E.res = "err") ELSE err
       /\ json' = IF E.op \in {"to_json", "wrapper_to_json"} THEN (E.res = "ok") ELSE json
  /\ UNCHANGED <<run, results>>

End == /\ IsEvent("end")
       /\ results' = IF dev = {} THEN results ELSE Append(results, [id |-> run, dev |-> dev])
       /\ UNCHANGED <<run, msg, err, json, dev>>

TraceNext == Begin \/ Call \/ End
TraceSpec == TraceInit /\ [][TraceNext]_vars

Total == TRUE   \* the alphabet restriction lives in Call: a non-total answer is filed in dev
Report == (l = Len(Rec) + 1) => PrintT(ToJson([results |-> results, lines |-> Len(Rec)]))
AllLinesExplained ==
  IF TLCGet("stats").diameter - 1 = Len(Rec) THEN TRUE
  ELSE PrintT(<<"UNEXPLAINED", TLCGet("stats").diameter, Rec[TLCGet("stats").diameter]>>) /\ FALSE
=============================================================================
