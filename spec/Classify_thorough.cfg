SPECIFICATION Spec
CONSTANTS
  MaxWords = 4
  EmitCases = TRUE
INVARIANTS ReturnOnlyIsNotReject LookAlikesDoNotClassify Precedence Emit
CHECK_DEADLOCK FALSE
