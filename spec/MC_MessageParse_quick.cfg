SPECIFICATION Spec
CONSTANTS
  TypesUnderTest <- AllTypes
  K = 2
  MaxMut = 1
  MutKinds <- QuickMuts
  MutateAll = FALSE
  Modes <- AllModes
  EmitCases = TRUE
INVARIANTS
  TypeOK
  TableOK
  UnmutatedAccepted
  OverCapRejected
  NoSilentLoss
  RejectNamesCulprit
  ForeignNeverConsumed
  Emit
CHECK_DEADLOCK FALSE
