SPECIFICATION TraceSpec
INVARIANTS StageOrder Report
POSTCONDITION AllLinesExplained
CHECK_DEADLOCK FALSE
