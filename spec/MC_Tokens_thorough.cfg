SPECIFICATION Spec
CONSTANTS
  MaxLines = 5
  EmitCases = TRUE
INVARIANTS ScanAgrees TagsFromTLines AllFieldsKept Emit
CHECK_DEADLOCK FALSE
