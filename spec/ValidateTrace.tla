---------------------------- MODULE ValidateTrace ----------------------------
(***************************************************************************)
(* Validates recorded histories of validation calls on one parsed message  *)
(* against Validate.tla.  The group structure is not observable, but       *)
(*    \E gs : first = Run(gs, TRUE) /\ full = Run(gs, FALSE)               *)
(* holds iff first is a prefix of full and both are empty together (take   *)
(* gs = <<first, rest>>), which is what the trace actions check -- in      *)
(* every order of calls, every call against everything learnt before.      *)
(***************************************************************************)
EXTENDS Naturals, Sequences, SequencesExt, FiniteSets, TLC, Json, IOUtils

Rec == ndJsonDeserialize(IOEnv.TRACE)

VARIABLES l, run, full, first, dev, results
\* full / first: <<TRUE, seq>> once observed, <<FALSE, <<>>>> before
vars == <<l, run, full, first, dev, results>>

E == Rec[l]
IsEvent(name) == l <= Len(Rec) /\ E.e = name /\ l' = l + 1
ToSeq(sq) == [i \in 1..Len(sq) |-> sq[i]]
Unknown == <<FALSE, <<>>>>

TraceInit == l = 1 /\ run = [id |-> -1, mt |-> ""] /\ full = Unknown /\ first = Unknown /\ dev = {} /\ results = <<>>

Compatible(fi, fu) ==   \* some rule program explains both observations
  (fi[1] /\ fu[1]) => (IsPrefix(fi[2], fu[2]) /\ ((fi[2] = <<>>) <=> (fu[2] = <<>>)))

WhyNot(fi, fu) ==
  IF ~(fi[1] /\ fu[1]) THEN {}
  ELSE (IF ~IsPrefix(fi[2], fu[2]) THEN {"StopResultNotPrefixOfFull"} ELSE {})
       \cup (IF (fi[2] = <<>>) # (fu[2] = <<>>) THEN {"EmptinessDiffers"} ELSE {})

Begin ==
  /\ IsEvent("begin")
  /\ run' = [id |-> E.id, mt |-> E.mt] /\ full' = Unknown /\ first' = Unknown /\ dev' = {}
  /\ UNCHANGED results

Rules ==
  /\ IsEvent("rules")
  /\ LET got == <<TRUE, ToSeq(E.errs)>> IN
       IF E.stop
       THEN /\ first' = IF first[1] THEN first ELSE got
            /\ dev' = dev \cup (IF first[1] /\ first # got THEN {"NotIdempotent"} ELSE {}) \cup WhyNot(got, full)
            /\ UNCHANGED full
       ELSE /\ full' = IF full[1] THEN full ELSE got
            /\ dev' = dev \cup (IF full[1] /\ full # got THEN {"NotIdempotent"} ELSE {}) \cup WhyNot(first, got)
            /\ UNCHANGED first
  /\ UNCHANGED <<run, results>>

(* adapters: verdict and rule codes must be those of the full list *)
Adapter ==
  /\ IsEvent("adapter")
  /\ dev' = dev \cup
       (IF full[1] /\ (E.valid # (full[2] = <<>>)) THEN {"AdapterVerdictDisagrees_" \o E.api} ELSE {}) \cup
       (IF full[1] /\ E.n # Len(full[2]) THEN {"AdapterErrorCountDisagrees_" \o E.api} ELSE {})
  /\ UNCHANGED <<run, full, first, results>>

End ==
  /\ IsEvent("end")
  /\ LET d == dev \cup (IF E.unchanged THEN {} ELSE {"MessageChangedByValidation"}) IN
       results' = IF d = {} THEN results ELSE Append(results, [id |-> run.id, mt |-> run.mt, dev |-> d])
  /\ UNCHANGED <<run, full, first, dev>>

TraceNext == Begin \/ Rules \/ Adapter \/ End
TraceSpec == TraceInit /\ [][TraceNext]_vars

TraceInv == Compatible(first, full) \/ dev # {}
Report == (l = Len(Rec) + 1) => PrintT(ToJson([results |-> results, lines |-> Len(Rec)]))
AllLinesExplained ==
  IF TLCGet("stats").diameter - 1 = Len(Rec) THEN TRUE
  ELSE PrintT(<<"UNEXPLAINED", TLCGet("stats").diameter, Rec[TLCGet("stats").diameter]>>) /\ FALSE
=============================================================================
