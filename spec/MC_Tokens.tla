------------------------------ MODULE MC_Tokens ------------------------------
(* all line sequences up to MaxLines over the line classes; one ScanLine step per line *)
EXTENDS Tokens, TLC, Json

CONSTANTS MaxLines, EmitCases

VARIABLES lines, st

vars == <<lines, st>>

T(tag, num, txt) == [k |-> "T", tag |-> tag, num |-> num, txt |-> txt]
Alphabet == { T("20", "20", "X"), T("50K", "50", "X"), T("20C", "20", "X"), T("71A", "71", "X"), T("21", "21", ""),
              T("79", "79", "X-"),                                   \* content ending with a dash
              T("50L#1", "50", "X"),                                 \* numbered tag that also carries an option letter
              [k |-> "C", txt |-> "enddash"],
              [k |-> "C", txt |-> "plain"], [k |-> "C", txt |-> "colon"], [k |-> "C", txt |-> "marker"],
              [k |-> "C", txt |-> "dashy"],
              \* continuation lines that open like a marker and are none: colon, digits, letter, no closing colon / a
              \* numbered tag whose digits run to the end of the line
              [k |-> "C", txt |-> "nearmarker"], [k |-> "C", txt |-> "nearnumbered"],
              [k |-> "D"], [k |-> "B"], [k |-> "J", txt |-> "junk"] }

Init == lines = <<>> /\ st = ScanInit
Next == /\ Len(lines) < MaxLines
        /\ ~st.ended                       \* the terminator is the last line of a block
        /\ \E ln \in Alphabet : lines' = Append(lines, ln) /\ st' = ScanLine(st, ln)
Spec == Init /\ [][Next]_vars

(* the incremental scanner and the whole-text operator agree *)
ScanAgrees == Close(st) = Tok(lines)
(* nothing is invented: every token was opened by a T line, in order *)
TagsFromTLines ==
  LET tl == SelectSeq(lines, LAMBDA ln : ln.k = "T") IN
    /\ Len(Close(st).toks) <= Len(tl)
    /\ \A i \in 1..Len(Close(st).toks) : Close(st).toks[i].tag = tl[i].tag
(* without a terminator every T line yields a token *)
AllFieldsKept == (\A i \in 1..Len(lines) : lines[i].k # "D") =>
                    Len(Close(st).toks) = Len(SelectSeq(lines, LAMBDA ln : ln.k = "T"))

NormTag(ln) == IF ln.num \in KeepLetter THEN ln.tag ELSE ln.num
Case == [lines |-> [i \in 1..Len(lines) |->
                      IF lines[i].k = "T" THEN [k |-> "T", tag |-> lines[i].tag, txt |-> lines[i].txt]
                      ELSE IF lines[i].k \in {"C", "J"} THEN [k |-> lines[i].k, tag |-> "", txt |-> lines[i].txt]
                      ELSE [k |-> lines[i].k, tag |-> "", txt |-> ""]],
         toks |-> Close(st).toks, junk |-> st.junk, ended |-> st.ended]
Emit == (EmitCases /\ Len(lines) > 0) => PrintT(ToJson(Case))
=============================================================================
