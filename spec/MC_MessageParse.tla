-------------------------- MODULE MC_MessageParse --------------------------
EXTENDS MessageParse
AllTypes   == Types
QuickMuts  == {"insf", "dup", "swap", "bad", "del"}
AllMuts    == {"insf", "dup", "swap", "bad", "del", "own"}
AllModes   == {"sparse", "full", "cap", "overcap"}
BaseModes  == {"sparse", "full"}
=============================================================================
