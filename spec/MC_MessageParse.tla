-------------------------- MODULE MC_MessageParse --------------------------
EXTENDS MessageParse
AllTypes   == Types
QuickMuts  == {"insf", "dup", "swap", "bad", "del", "letter", "own"}
AllMuts    == {"insf", "dup", "swap", "bad", "del", "letter", "own"}
AllModes   == {"sparse", "full", "cofull", "cap", "overcap"}
BaseModes  == {"sparse", "full", "cofull"}
=============================================================================
