SPECIFICATION Spec
CONSTANTS
  TypesUnderTest <- AllRuleTypes
  EmitCases = TRUE
INVARIANTS RulesTotal BaselineValid Emit
CHECK_DEADLOCK FALSE
