------------------------------ MODULE Layouts ------------------------------
(***************************************************************************)
(* The documented block-4 layouts of the 30 supported message types, as    *)
(* data.  Source: the message structs (mandatory / Option / Vec), their    *)
(* option enums, the documented repetition limits and the documented field *)
(* order (SR2025 order = the order the type's serialiser emits).  This     *)
(* table is deliberately NOT derived from the call sequences in            *)
(* parse_from_block4 -- those are the code under test.                     *)
(*                                                                         *)
(* An item is a record                                                     *)
(*   k    : "F" mandatory field, "O" optional field, "R" repeatable field, *)
(*          "LB" begin of a repeating/optional sequence, "LE" its end      *)
(*   fam  : base tag reported when the item is missing                     *)
(*   tags : the full tags (base tag + option letter) admitted here; the    *)
(*          first one is the default option used by the walk generator     *)
(*   min, max : occurrence bounds (fields: of the field; LB: of the        *)
(*          sequence; max = Unbounded for "no documented limit")           *)
(* Sequences do not nest in any of the 30 types.                           *)
(***************************************************************************)
EXTENDS Naturals, Sequences, FiniteSets

Unbounded == 1000000

F(fam, tags)        == [k |-> "F",  fam |-> fam, tags |-> tags, min |-> 1, max |-> 1]
O(fam, tags)        == [k |-> "O",  fam |-> fam, tags |-> tags, min |-> 0, max |-> 1]
R(fam, tags, lo, hi) == [k |-> "R", fam |-> fam, tags |-> tags, min |-> lo, max |-> hi]
LB(lo, hi)          == [k |-> "LB", fam |-> "",  tags |-> <<>>, min |-> lo, max |-> hi]
LE                  == [k |-> "LE", fam |-> "",  tags |-> <<>>, min |-> 0, max |-> 0]

f(t) == F(t, <<t>>)
o(t) == O(t, <<t>>)

(* option families as they occur in the library's option enums *)
T50CL   == <<"50C", "50L">>               \* Field50InstructingParty
T50FGH  == <<"50F", "50G", "50H">>        \* Field50OrderingCustomerFGH
T50AFK  == <<"50K", "50A", "50F">>        \* Field50OrderingCustomerAFK
T50AK   == <<"50K", "50A">>               \* Field50Creditor
T50NCF  == <<"50", "50C", "50F">>         \* Field50OrderingCustomerNCF
T52AC   == <<"52A", "52C">>               \* Field52AccountServicingInstitution
T52AD   == <<"52A", "52D">>               \* Field52OrderingInstitution
T52ACD  == <<"52A", "52C", "52D">>        \* Field52CreditorBank
T52ABD  == <<"52A", "52B", "52D">>        \* Field52DrawerBank
T53ABD  == <<"53A", "53B", "53D">>
T54ABD  == <<"54A", "54B", "54D">>
T55ABD  == <<"55A", "55B", "55D">>
T56ACD  == <<"56A", "56C", "56D">>
T56AD   == <<"56A", "56D">>
T57ABCD == <<"57A", "57B", "57C", "57D">>
T57ABD  == <<"57A", "57B", "57D">>
T58AD   == <<"58A", "58D">>
T59NAF  == <<"59", "59A", "59F">>         \* Field59
T59NA   == <<"59", "59A">>                \* Field59Debtor
T32AB   == <<"32A", "32B">>
T32CD   == <<"32C", "32D">>

L101 == << f("20"), o("21R"), f("28D"), O("50", T50CL), O("50", T50FGH), O("52", T52AC),
           o("51A"), f("30"), o("25"),
           LB(1, Unbounded),
             f("21"), o("21F"), R("23E", <<"23E">>, 0, Unbounded), f("32B"),
             O("50", T50CL), O("50", T50FGH), O("52", T52AC), O("56", T56ACD),
             O("57", T57ABCD), F("59", T59NAF), o("70"), o("77B"), o("33B"), f("71A"),
             o("25A"), o("36"),
           LE >>

L103 == << f("20"), R("13C", <<"13C">>, 0, Unbounded), f("23B"),
           R("23E", <<"23E">>, 0, Unbounded), o("26T"), f("32A"), o("33B"), o("36"),
           F("50", T50AFK), o("51A"), O("52", T52AD), O("53", T53ABD), O("54", T54ABD),
           O("55", T55ABD), O("56", T56ACD), O("57", T57ABCD), F("59", T59NAF), o("70"),
           f("71A"), R("71F", <<"71F">>, 0, Unbounded), o("71G"), o("72"), o("77B"),
           o("77T") >>

SeqB104(t59) ==
        << LB(1, Unbounded),
             f("21"), o("23E"), o("21C"), o("21D"), o("21E"), f("32B"),
             O("50", T50CL), O("50", T50AK), O("52", T52ACD), O("57", T57ABCD),
             F("59", t59), o("70"), o("26T"), o("77B"), o("33B"), o("71A"), o("71F"),
             o("71G"), o("36"),
           LE >>

L104 == << f("20"), o("21R"), o("23E"), o("21E"), f("30"), o("51A"), O("50", T50CL),
           O("50", T50AK), O("52", T52ACD), o("26T"), o("77B"), o("71A"), o("72") >>
        \o SeqB104(T59NA) \o
        << LB(0, 1), f("32B"), o("19"), o("71F"), o("71G"), O("53", T53ABD), LE >>

L107 == << f("20"), o("23E"), o("21E"), f("30"), o("51A"), O("50", T50CL),
           O("50", T50AK), O("52", T52ACD), o("26T"), o("77B"), o("71A"), o("72") >>
        \o SeqB104(T59NAF) \o
        << f("32B"), o("19"), o("71F"), o("71G"), O("53", T53ABD) >>

L110 == << f("20"), O("53", T53ABD), O("54", T54ABD), o("72"),
           LB(1, 10),
             f("21"), f("30"), F("32", T32AB), O("50", T50AFK), O("52", T52ABD),
             F("59", T59NAF),
           LE >>

L111 == << f("20"), f("21"), f("30"), F("32", T32AB), O("52", T52AD), o("59"), o("75") >>
L112 == << f("20"), f("21"), f("30"), F("32", T32AB), O("52", T52AD), o("59"), f("76") >>
L190 == << f("20"), f("21"), f("25"), F("32", T32CD), O("52", T52AD), f("71B"), o("72") >>
L191 == << f("20"), f("21"), f("32B"), O("52", T52AD), O("57", T57ABCD), f("71B"), o("72") >>
L192 == << f("20"), f("21"), f("11S"), o("79") >>
L196 == << f("20"), f("21"), f("76"), o("77A"), o("11"), o("79") >>
L199 == << f("20"), o("21"), f("79") >>
L200 == << f("20"), f("32A"), o("53B"), O("56", T56AD), F("57", T57ABD), o("72") >>

L202 == << f("20"), f("21"), R("13C", <<"13C">>, 0, Unbounded), f("32A"), O("52", T52AD),
           O("53", T53ABD), O("54", T54ABD), O("56", T56ACD), O("57", T57ABCD),
           F("58", T58AD), o("72"),
           \* sequence B (cover), every member optional in the library's model
           O("50", T50AFK), O("52", T52AD), O("56", T56ACD), O("57", T57ABCD),
           O("59", T59NAF), o("70"), o("72"), o("33B") >>

L204 == << f("19"), f("20"), f("30"), O("57", T57ABCD), O("58", T58AD), o("72"),
           LB(0, 10),
             f("20"), o("21"), f("32B"), O("53", T53ABD), o("72"),
           LE >>

L205 == << f("20"), f("21"), R("13C", <<"13C">>, 0, Unbounded), o("23B"), f("32A"),
           o("33B"), O("52", T52AD), O("53", T53ABD), O("54", T54ABD), O("56", T56ACD),
           O("57", T57ABCD), F("58", T58AD), o("72") >>

L210 == << f("20"), o("25"), f("30"),
           LB(1, 10),
             o("21"), f("32B"), O("50", T50NCF), O("52", T52AD), O("56", T56ACD),
           LE >>

L290 == L190
L291 == << f("20"), f("21"), f("32B"), O("52", T52AD), O("57", T57ABD), f("71B"), o("72") >>
\* n92: "79 or a copy of the original fields" -- the library models no copy, so 79 is required
L292 == << f("20"), f("21"), f("11S"), f("79") >>
L296 == << f("20"), f("21"), f("76"), o("77A"), o("11R"), o("11S"), o("79") >>
L299 == L199

L900 == << f("20"), f("21"), f("25"), o("13D"), f("32A"), O("52", T52AD), o("72") >>
L910 == << f("20"), f("21"), f("25"), o("13D"), f("32A"), O("50", T50AFK), O("52", T52AD),
           O("56", T56ACD), o("72") >>
L920 == << f("20"), LB(1, 100), f("12"), f("25"), o("34F"), o("34F"), LE >>
\* 935: network rule C2 (exactly one of 23 / 25 per sequence) is structural for the parser
L935 == << f("20"),
           LB(1, 10), F("23", <<"23", "25">>), f("30"), R("37H", <<"37H">>, 1, Unbounded), LE,
           o("72") >>
L940 == << f("20"), o("21"), f("25"), f("28C"), f("60F"),
           LB(1, 500), f("61"), o("86"), LE,
           f("62F"), o("64"), R("65", <<"65">>, 0, Unbounded) >>
L941 == << f("20"), o("21"), f("25"), f("28"), o("13D"), o("60F"), o("90D"), o("90C"),
           f("62F"), o("64"), R("65", <<"65">>, 0, Unbounded), o("86") >>
L942 == << f("20"), o("21"), f("25"), f("28C"), f("34F"), o("34F"), f("13D"),
           LB(0, Unbounded), f("61"), o("86"), LE,
           o("90D"), o("90C"), o("86") >>
L950 == << f("20"), f("25"), f("28C"), F("60", <<"60F", "60M">>),
           R("61", <<"61">>, 0, Unbounded), F("62", <<"62F", "62M">>), o("64") >>

Types == {"101", "103", "104", "107", "110", "111", "112", "190", "191", "192", "196",
          "199", "200", "202", "204", "205", "210", "290", "291", "292", "296", "299",
          "900", "910", "920", "935", "940", "941", "942", "950"}

Layout(t) ==
  CASE t = "101" -> L101 [] t = "103" -> L103 [] t = "104" -> L104 [] t = "107" -> L107
    [] t = "110" -> L110 [] t = "111" -> L111 [] t = "112" -> L112 [] t = "190" -> L190
    [] t = "191" -> L191 [] t = "192" -> L192 [] t = "196" -> L196 [] t = "199" -> L199
    [] t = "200" -> L200 [] t = "202" -> L202 [] t = "204" -> L204 [] t = "205" -> L205
    [] t = "210" -> L210 [] t = "290" -> L290 [] t = "291" -> L291 [] t = "292" -> L292
    [] t = "296" -> L296 [] t = "299" -> L299 [] t = "900" -> L900 [] t = "910" -> L910
    [] t = "920" -> L920 [] t = "935" -> L935 [] t = "940" -> L940 [] t = "941" -> L941
    [] t = "942" -> L942 [] t = "950" -> L950

Range(s) == {s[i] : i \in 1..Len(s)}

(* option families: all option tags of a base tag that some layout uses *)
Siblings == {
  {"50", "50A", "50C", "50F", "50G", "50H", "50K", "50L"}, {"52A", "52B", "52C", "52D"}, {"53A", "53B", "53D"},
  {"54A", "54B", "54D"}, {"55A", "55B", "55D"}, {"56A", "56C", "56D"}, {"57A", "57B", "57C", "57D"}, {"58A", "58D"},
  {"59", "59A", "59F"}, {"32A", "32B", "32C", "32D"}, {"60F", "60M"}, {"62F", "62M"} }
SiblingsOf(tag) == UNION {S \in Siblings : tag \in S} \ {tag}

(* every tag that can occur somewhere in a message of the type *)
Alphabet(t) == UNION {Range(Layout(t)[i].tags) : i \in 1..Len(Layout(t))}

(* index of the LE matching the LB at i, and of the LB matching the LE at j *)
EndOf(L, i)   == CHOOSE j \in (i+1)..Len(L) :
                    /\ L[j].k = "LE"
                    /\ \A m \in (i+1)..(j-1) : L[m].k # "LE"
BeginOf(L, j) == CHOOSE i \in 1..(j-1) :
                    /\ L[i].k = "LB"
                    /\ \A m \in (i+1)..(j-1) : L[m].k # "LB"

(* well-formedness of the table itself (checked by TLC as an ASSUME-style invariant) *)
LayoutOK(L) ==
  /\ \A i \in 1..Len(L) :
        /\ L[i].k \in {"F", "O", "R", "LB", "LE"}
        /\ L[i].k \in {"F", "O", "R"} => Len(L[i].tags) >= 1 /\ L[i].min <= L[i].max
        /\ L[i].k = "LB" => \E j \in (i+1)..Len(L) : L[j].k = "LE"
  /\ \A i, j \in 1..Len(L) :   \* no nesting
        (L[i].k = "LB" /\ L[j].k = "LB" /\ i < j) => EndOf(L, i) < j
=============================================================================
