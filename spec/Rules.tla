-------------------------------- MODULE Rules --------------------------------
(***************************************************************************)
(* Network validation rules as documented for each message type (the rule  *)
(* text the library quotes in its doc comments and rule descriptions, i.e. *)
(* the SR2025 wording), over the rule-relevant abstraction of a message:   *)
(* a record of FACTS (presence bits, code values, currency relations, sum  *)
(* relations, repetition counts).                                          *)
(*                                                                         *)
(*   Expected(mt, f)  the set of error codes the documented rules yield    *)
(*   Build(mt, f)     the abstract message (token list with content knobs, *)
(*                    "TAG" or "TAG=knob") that realises the facts         *)
(*                                                                         *)
(* A message satisfies all rules iff Expected = {} (ValidIffEmpty).  The   *)
(* fact space of a type is a union of cones: every rule's own facts vary   *)
(* freely (with the facts of the rules it interacts with) while the others *)
(* stay at a valid baseline.                                               *)
(***************************************************************************)
EXTENDS Naturals, Sequences, FiniteSets, TLC, Json

CONSTANTS TypesUnderTest, EmitCases

Range(s) == {s[i] : i \in 1..Len(s)}
SeqsUpTo(S, n) == UNION {[1..k -> S] : k \in 0..n}

(* ================================ MT103 ================================== *)
Valid23B   == {"CRED", "CRTS", "SPAY", "SPRI", "SSTD"}
Order23E   == <<"SDVA", "INTC", "REPA", "CORT", "HOLD", "CHQB", "PHOB", "TELB", "PHON", "TELE", "PHOI", "TELI">>
Valid23E   == Range(Order23E)
Info23E    == {"PHON", "PHOB", "PHOI", "TELE", "TELB", "TELI", "HOLD", "REPA"}
SpriAllowed == {"SDVA", "TELB", "PHOB", "INTC"}
Pos23E(c)  == CHOOSE i \in 1..Len(Order23E) : Order23E[i] = c
Clash23E(a, b) ==       \* unordered invalid pairs
  LET P == {<<"SDVA", "HOLD">>, <<"SDVA", "CHQB">>, <<"INTC", "HOLD">>, <<"INTC", "CHQB">>, <<"REPA", "HOLD">>,
            <<"REPA", "CHQB">>, <<"REPA", "CORT">>, <<"CORT", "HOLD">>, <<"CORT", "CHQB">>, <<"HOLD", "CHQB">>,
            <<"PHOB", "TELB">>, <<"PHON", "TELE">>, <<"PHOI", "TELI">>}
  IN <<a, b>> \in P \/ <<b, a>> \in P

Base103 == [b23 |-> "CRED", e23 |-> <<>>, info |-> FALSE, f33 |-> "none", f36 |-> FALSE, f53 |-> FALSE, f54 |-> FALSE,
            f55 |-> FALSE, f56 |-> "none", f57 |-> FALSE, acct |-> TRUE, a71 |-> "SHA", f71f |-> 0, g71 |-> "none"]
Codes103 == Valid23E \cup {"ZZZZ"}
Facts103 ==
     {[Base103 EXCEPT !.b23 = b, !.e23 = e] : b \in Valid23B \cup {"URGP"}, e \in SeqsUpTo(Codes103, 2)}
  \cup {[Base103 EXCEPT !.e23 = <<c>>, !.info = TRUE] : c \in Codes103}
  \cup {[Base103 EXCEPT !.e23 = e] : e \in [1..3 -> {"SDVA", "INTC", "REPA", "CORT", "HOLD", "CHQB"}]}
  \cup {[Base103 EXCEPT !.f33 = a, !.f36 = b, !.a71 = c, !.f71f = d, !.g71 = e] :
           a \in {"none", "same", "diff"}, b \in BOOLEAN, c \in {"OUR", "SHA", "BEN"}, d \in {0, 1, 2},
           e \in {"none", "same", "diff"}}
  \cup {[Base103 EXCEPT !.f53 = a, !.f54 = b, !.f55 = c] : a, b, c \in BOOLEAN}
  \cup {[Base103 EXCEPT !.b23 = b, !.f56 = o, !.f57 = p, !.e23 = e] :
           b \in Valid23B, o \in {"none", "A", "C", "D"}, p \in BOOLEAN,
           e \in {<<>>, <<"TELI">>, <<"PHOI">>, <<"TELE">>, <<"PHON">>, <<"PHON", "TELI">>}}
  \cup {[Base103 EXCEPT !.e23 = e, !.acct = a] : e \in {<<>>, <<"CHQB">>, <<"HOLD">>}, a \in BOOLEAN}

Expected103(f) ==
  LET codes == Range(f.e23)
      validcodes == {f.e23[i] : i \in {j \in 1..Len(f.e23) : f.e23[j] \in Valid23E}} IN
     (IF (f.f33 = "diff" /\ ~f.f36) \/ (f.f33 = "same" /\ f.f36) \/ (f.f33 = "none" /\ f.f36) THEN {"D75"} ELSE {})
  \cup (IF f.b23 = "SPRI" /\ \E c \in codes : c \notin SpriAllowed THEN {"E01"} ELSE {})
  \cup (IF f.b23 \in {"SSTD", "SPAY"} /\ f.e23 # <<>> THEN {"E02"} ELSE {})
  \cup (IF f.f55 /\ ~(f.f53 /\ f.f54) THEN {"E06"} ELSE {})
  \cup (IF f.f56 # "none" /\ ~f.f57 THEN {"C81"} ELSE {})
  \cup (IF f.b23 = "SPRI" /\ f.f56 # "none" THEN {"E16"} ELSE {})
  \cup (IF f.b23 \in {"SSTD", "SPAY"} /\ f.f56 = "D" THEN {"E17"} ELSE {})
  \cup (IF f.a71 = "OUR" /\ f.f71f > 0 THEN {"E13"} ELSE {})
  \cup (IF f.a71 = "SHA" /\ f.g71 # "none" THEN {"D50"} ELSE {})
  \cup (IF f.a71 = "BEN" /\ (f.f71f = 0 \/ f.g71 # "none") THEN {"E15"} ELSE {})
  \cup (IF (f.f71f > 0 \/ f.g71 # "none") /\ f.f33 = "none" THEN {"D51"} ELSE {})
  \cup (IF f.g71 = "diff" THEN {"C02"} ELSE {})
  \cup (IF "CHQB" \in codes /\ f.acct THEN {"E18"} ELSE {})
  \cup (IF f.f56 = "none" /\ (codes \cap {"TELI", "PHOI"}) # {} THEN {"E44"} ELSE {})
  \cup (IF ~f.f57 /\ (codes \cap {"TELE", "PHON"}) # {} THEN {"E45"} ELSE {})
  \cup (IF f.b23 \notin Valid23B THEN {"T36"} ELSE {})
  \cup (IF \E c \in codes : c \notin Valid23E THEN {"T48"} ELSE {})
  \cup (IF f.info /\ \E c \in codes : c \notin Info23E THEN {"D97"} ELSE {})
  \cup (IF \E i, j \in 1..Len(f.e23) : i < j /\ f.e23[i] = f.e23[j] THEN {"E46"} ELSE {})
  \cup (IF \E i, j \in 1..Len(f.e23) : i < j /\ f.e23[i] \in Valid23E /\ f.e23[j] \in Valid23E
                                        /\ Pos23E(f.e23[i]) > Pos23E(f.e23[j]) THEN {"D98"} ELSE {})
  \cup (IF \E i, j \in 1..Len(f.e23) : i # j /\ Clash23E(f.e23[i], f.e23[j]) THEN {"D67"} ELSE {})

Rep(tok, n) == [i \in 1..n |-> tok]
Build103(f) ==
  <<"20", "23B=" \o f.b23>>
  \o [i \in 1..Len(f.e23) |-> "23E=" \o f.e23[i] \o (IF f.info THEN "/INFO" ELSE "")]
  \o <<"32A=USD:1000">>
  \o (IF f.f33 = "same" THEN <<"33B=USD:1000">> ELSE IF f.f33 = "diff" THEN <<"33B=EUR:900">> ELSE <<>>)
  \o (IF f.f36 THEN <<"36">> ELSE <<>>)
  \o <<"50K">>
  \o (IF f.f53 THEN <<"53A">> ELSE <<>>) \o (IF f.f54 THEN <<"54A">> ELSE <<>>) \o (IF f.f55 THEN <<"55A">> ELSE <<>>)
  \o (IF f.f56 = "none" THEN <<>> ELSE <<"56" \o f.f56>>)
  \o (IF f.f57 THEN <<"57A">> ELSE <<>>)
  \o <<(IF f.acct THEN "59=acct" ELSE "59=noacct"), "71A=" \o f.a71>>
  \o Rep("71F=USD:5", f.f71f)
  \o (IF f.g71 = "same" THEN <<"71G=USD:5">> ELSE IF f.g71 = "diff" THEN <<"71G=EUR:5">> ELSE <<>>)


(* ================================ MT101 ================================== *)
(* two-transaction abstraction; tx1 carries the per-transaction rule facts   *)
Valid101   == {"CHQB", "CMSW", "CMTO", "CMZB", "CORT", "EQUI", "INTC", "NETS", "OTHR", "PHON", "REPA", "RTGS", "URGP"}
Info101    == {"CMTO", "PHON", "OTHR", "REPA"}
Clash101(a, b) ==
  LET P == {<<"CHQB", x>> : x \in {"CMSW", "CMTO", "CMZB", "CORT", "NETS", "PHON", "REPA", "RTGS", "URGP"}}
           \cup {<<"CMSW", "CMTO">>, <<"CMSW", "CMZB">>, <<"CMTO", "CMZB">>, <<"CORT", "CMSW">>, <<"CORT", "CMTO">>,
                 <<"CORT", "CMZB">>, <<"CORT", "REPA">>, <<"EQUI", "CMSW">>, <<"EQUI", "CMTO">>, <<"EQUI", "CMZB">>,
                 <<"NETS", "RTGS">>}
  IN <<a, b>> \in P \/ <<b, a>> \in P
Base101 == [ntx |-> 1, ocA |-> TRUE, ocB |-> "none", ipA |-> FALSE, ipB |-> FALSE, s52A |-> FALSE, s52B |-> FALSE,
            f21R |-> FALSE, cur2 |-> "same", f36 |-> FALSE, f21F |-> FALSE, f33 |-> "none", e23 |-> <<>>, info |-> FALSE,
            f56 |-> FALSE, f57 |-> FALSE, amt |-> "normal"]
\* the amount of the first transaction: 100,00 / the smallest amount that is not zero.  ("zero" is what rules C2 and
\* C9 (E54) turn on, but the library's field 32B refuses a zero amount, so no parsed message carries one; Expected101
\* states the rules for it all the same)
Amts101 == {"normal", "cent"}
Amt101Str(a) == IF a = "zero" THEN "0" ELSE IF a = "cent" THEN "0.01" ELSE "100"
Codes101 == Valid101 \cup {"ZZZZ"}
Facts101 ==
     {[Base101 EXCEPT !.f36 = a, !.f21F = b, !.f33 = c] : a, b \in BOOLEAN, c \in {"none", "same", "diff"}}
  \cup {[Base101 EXCEPT !.ntx = n, !.ocA = a, !.ocB = b, !.ipA = c, !.ipB = d, !.s52A = e, !.s52B = g] :
           n \in {1, 2}, a \in BOOLEAN, b \in {"none", "first", "all"}, c, d, e, g \in BOOLEAN}
  \cup {[Base101 EXCEPT !.ntx = n, !.f21R = a, !.cur2 = b] : n \in {2, 3, 4}, a \in BOOLEAN, b \in {"same", "diff", "lastdiff"}}
  \cup {[Base101 EXCEPT !.f56 = a, !.f57 = b] : a, b \in BOOLEAN}
  \cup {[Base101 EXCEPT !.e23 = e, !.info = i] : e \in SeqsUpTo(Codes101, 2), i \in BOOLEAN}
  \* zero and smallest amounts with the fields the amount decides about (D60, E54)
  \cup {[Base101 EXCEPT !.amt = m, !.f33 = c, !.f36 = a, !.f21F = b, !.e23 = e] :
           m \in Amts101, c \in {"none", "diff"}, a, b \in BOOLEAN, e \in {<<>>, <<"EQUI">>, <<"URGP">>}}
  \* several repeated codes at once (several E46 findings: their order must be stable)
  \cup {[Base101 EXCEPT !.e23 = e] : e \in {<<"INTC", "URGP", "INTC", "URGP">>, <<"URGP", "URGP", "PHON", "PHON">>,
                                              <<"INTC", "PHON", "URGP", "URGP", "PHON", "INTC">>}}
  \* several forbidden combinations at once (several D67 findings: their order must be stable)
  \cup {[Base101 EXCEPT !.e23 = <<a, b, c>>] : a, b, c \in {"CHQB", "CMSW", "CMTO", "CORT", "URGP"}}

OcInAll(f)  == f.ocB = "all" \/ (f.ocB = "first" /\ f.ntx = 1)
OcInAny(f)  == f.ocB # "none"
Expected101(f) ==
  LET codes == Range(f.e23) IN
     (IF f.f36 /\ ~f.f21F THEN {"D54"} ELSE {})
  \cup (IF (f.f33 # "none" /\ f.amt # "zero" /\ ~f.f36) \/ (f.f33 # "none" /\ f.amt = "zero" /\ f.f36) \/ (f.f33 = "none" /\ f.f36)
        THEN {"D60"} ELSE {})
  \cup (IF f.amt = "zero" /\ (("EQUI" \in codes /\ f.f33 = "none") \/ ("EQUI" \notin codes /\ (f.f33 # "none" \/ f.f21F)))
        THEN {"E54"} ELSE {})
  \cup (IF (f.ocA /\ OcInAny(f)) \/ (~f.ocA /\ ~OcInAll(f)) THEN {"D61"} ELSE {})
  \cup (IF f.ipA /\ f.ipB THEN {"D62"} ELSE {})
  \cup (IF f.f33 = "same" THEN {"D68"} ELSE {})
  \cup (IF f.s52A /\ f.s52B THEN {"D64"} ELSE {})
  \cup (IF f.f56 /\ ~f.f57 THEN {"D65"} ELSE {})
  \cup (IF f.f21R /\ f.ntx >= 2 /\ f.cur2 # "same" THEN {"D98"} ELSE {})
  \cup (IF \E c \in codes : c \notin Valid101 THEN {"T47"} ELSE {})
  \cup (IF f.info /\ \E c \in codes : c \notin Info101 THEN {"D66"} ELSE {})
  \cup (IF \E i, j \in 1..Len(f.e23) : i < j /\ f.e23[i] = f.e23[j] /\ f.e23[i] # "OTHR" THEN {"E46"} ELSE {})
  \cup (IF \E i, j \in 1..Len(f.e23) : i # j /\ Clash101(f.e23[i], f.e23[j]) THEN {"D67"} ELSE {})
Build101(f) ==
  <<"20">> \o (IF f.f21R THEN <<"21R">> ELSE <<>>) \o <<"28D">>
  \o (IF f.ipA THEN <<"50C">> ELSE <<>>) \o (IF f.ocA THEN <<"50H">> ELSE <<>>) \o (IF f.s52A THEN <<"52A">> ELSE <<>>)
  \o <<"30", "21">> \o (IF f.f21F THEN <<"21F">> ELSE <<>>)
  \o [i \in 1..Len(f.e23) |-> "23E=" \o f.e23[i] \o (IF f.info THEN "/INFO" ELSE "")]
  \o <<"32B=USD:" \o Amt101Str(f.amt)>>
  \o (IF f.ipB THEN <<"50L">> ELSE <<>>) \o (IF f.ocB \in {"first", "all"} THEN <<"50H">> ELSE <<>>)
  \o (IF f.s52B THEN <<"52A">> ELSE <<>>) \o (IF f.f56 THEN <<"56A">> ELSE <<>>) \o (IF f.f57 THEN <<"57A">> ELSE <<>>)
  \o <<"59=acct">>
  \o (IF f.f33 = "same" THEN <<"33B=USD:90">> ELSE IF f.f33 = "diff" THEN <<"33B=EUR:90">> ELSE <<>>)
  \o <<"71A=SHA">> \o (IF f.f36 THEN <<"36">> ELSE <<>>)
  \o LET Tx(i) == <<"21", "32B=" \o (IF (f.cur2 = "diff" /\ i = 2) \/ (f.cur2 = "lastdiff" /\ i = f.ntx) THEN "EUR" ELSE "USD") \o ":100">>
                   \o (IF f.ocB = "all" THEN <<"50H">> ELSE <<>>) \o <<"59=acct", "71A=SHA">>
         RECURSIVE Txs(_)
         Txs(i) == IF i > f.ntx THEN <<>> ELSE Tx(i) \o Txs(i + 1)
     IN Txs(2)

(* ================================ MT107 ================================== *)
\* "diff": the second occurrence deviates; "lastdiff": only the last one does (rules that compare neighbours
\* or pairs instead of every occurrence with the first go wrong there)
Deviates(c, i, n) == (c = "diff" /\ i = 2) \/ (c = "lastdiff" /\ i = n)
Place == {"none", "A", "first", "all", "Aall"}      \* where a field stands: nowhere, sequence A, first / every B, both
InA(p) == p \in {"A", "Aall"}
InAnyB(p) == p \in {"first", "all", "Aall"}
InEveryB(p, n) == p \in {"all", "Aall"} \/ (p = "first" /\ n = 1)
InB(p, i) == p \in {"all", "Aall"} \/ (p = "first" /\ i = 1)
(* amount magnitudes: "unit" = 100 a transaction, "big" = 30 000 000 a transaction (sums beyond 2^31 cents and
   beyond the point where a binary float still resolves 0.01 with an absolute tolerance), "bigcent" = big, and
   where two amounts differ they differ by exactly 0,01                                                        *)
\* which charges fields a sequence carries: none, 71F alone, 71G alone, both
Kinds == {"none", "F", "G", "both"}
HasF(k) == k \in {"F", "both"}
HasG(k) == k \in {"G", "both"}
ChToks(k, amt) == (IF HasF(k) THEN <<"71F=USD:" \o amt>> ELSE <<>>) \o (IF HasG(k) THEN <<"71G=USD:" \o amt>> ELSE <<>>)
\* charges currencies: every field's occurrences must agree among themselves (71F with 71F, 71G with 71G), not the two
\* fields with each other.  chcur = which field's sequence-C occurrence is in another currency; gcur = the currency of 71G
ChCurs == {"same", "F", "G"}
ChToksB(f) == (IF HasF(f.chB) THEN <<"71F=USD:1">> ELSE <<>>) \o (IF HasG(f.chB) THEN <<"71G=" \o f.gcur \o ":1">> ELSE <<>>)
ChToksC(f, k, amt) == (IF HasF(k) THEN <<"71F=" \o (IF f.chcur = "F" THEN "GBP" ELSE "USD") \o ":" \o amt>> ELSE <<>>)
                      \o (IF HasG(k) THEN <<"71G=" \o (IF f.chcur = "G" THEN "GBP" ELSE f.gcur) \o ":" \o amt>> ELSE <<>>)
ChCurClash(f, kC) == (f.chcur = "F" /\ HasF(f.chB) /\ HasF(kC)) \/ (f.chcur = "G" /\ HasG(f.chB) /\ HasG(kC))
Mags == {"unit", "big", "bigcent"}
Each(mag) == IF mag = "unit" THEN 100 ELSE 30000000
EachStr(mag) == ToString(Each(mag))
\* the total of n transactions, exact or missed by k units (by one cent for "bigcent")
TotalStr(mag, n, exact, k) == IF exact THEN ToString(Each(mag) * n)
                              ELSE IF mag = "bigcent" THEN ToString(Each(mag) * n) \o ".01" ELSE ToString(Each(mag) * n + k)
\* an amount other than one transaction's
OtherStr(mag) == IF mag = "unit" THEN "90" ELSE IF mag = "big" THEN "29999990" ELSE ToString(Each(mag)) \o ".01"
Base107 == [ntx |-> 1, e23 |-> "A", cr |-> "A", f21E |-> "none", f26T |-> "none", f77B |-> "none", f71A |-> "none",
            f52 |-> "none", ip |-> "none", code |-> "AUTH", info |-> FALSE, f72 |-> FALSE,
            chB |-> "none", chC |-> "none", chcur |-> "same", gcur |-> "USD", f33 |-> "none", f36 |-> FALSE, sumok |-> TRUE, cur2 |-> "same", mag |-> "unit"]
Facts107 ==
     {[Base107 EXCEPT !.ntx = n, !.e23 = a, !.cr = b] : n \in {1, 2}, a, b \in Place}
  \cup {[Base107 EXCEPT !.ntx = 2, !.f21E = a, !.cr = b] : a \in {"none", "A", "first", "all", "Aall"}, b \in {"A", "all", "first"}}
  \cup {[Base107 EXCEPT !.ntx = 2, !.f26T = a, !.f77B = b] : a, b \in {"none", "A", "first", "Aall"}}
  \cup {[Base107 EXCEPT !.ntx = 2, !.f71A = a, !.f52 = b, !.ip = c] : a, b, c \in {"none", "A", "first", "Aall"}}
  \cup {[Base107 EXCEPT !.code = a, !.info = b, !.f72 = c] : a \in {"AUTH", "NAUT", "OTHR", "RTND", "ZZZZ"}, b, c \in BOOLEAN}
  \cup {[Base107 EXCEPT !.chB = a, !.chC = b] : a, b \in Kinds}
  \cup {[Base107 EXCEPT !.chB = a, !.chC = b, !.chcur = c, !.gcur = g] : a, b \in {"F", "G", "both"}, c \in ChCurs, g \in {"USD", "EUR"}}
  \cup {[Base107 EXCEPT !.f33 = a, !.f36 = b] : a \in {"none", "same", "diffcur", "diffamt"}, b \in BOOLEAN}
  \cup {[Base107 EXCEPT !.ntx = n, !.sumok = a, !.cur2 = b] : n \in {2, 3}, a \in BOOLEAN, b \in {"same", "diff", "lastdiff"}}
  \cup {[Base107 EXCEPT !.ntx = n, !.sumok = a, !.mag = m] : n \in {2, 3}, a \in BOOLEAN, m \in Mags}
  \cup {[Base107 EXCEPT !.f33 = a, !.f36 = b, !.mag = m] : a \in {"none", "same", "diffcur", "diffamt"}, b \in BOOLEAN, m \in Mags}
Expected107(f) ==
     (IF (InA(f.e23) /\ InAnyB(f.e23)) \/ (~InA(f.e23) /\ ~InEveryB(f.e23, f.ntx))
         \/ (InA(f.cr) /\ InAnyB(f.cr)) \/ (~InA(f.cr) /\ ~InEveryB(f.cr, f.ntx)) THEN {"D86"} ELSE {})
  \cup (IF \E p \in {f.f21E, f.f26T, f.f77B, f.f71A, f.f52, f.ip} : InA(p) /\ InAnyB(p) THEN {"D73"} ELSE {})
  \cup (IF (InA(f.f21E) /\ ~InA(f.cr)) \/ (\E i \in 1..f.ntx : InB(f.f21E, i) /\ ~InB(f.cr, i)) THEN {"D77"} ELSE {})
  \cup (IF InA(f.e23) /\ ((f.code = "RTND") # f.f72) THEN {"C82"} ELSE {})
  \cup (IF HasF(f.chB) # HasF(f.chC) \/ HasG(f.chB) # HasG(f.chC) THEN {"D79"} ELSE {})
  \cup (IF f.f33 = "same" THEN {"D21"} ELSE {})
  \cup (IF (f.f33 = "diffcur" /\ ~f.f36) \/ (f.f33 # "diffcur" /\ f.f36) THEN {"D75"} ELSE {})
  \cup (IF ~f.sumok \/ f.chB # "none" THEN {"D80"} ELSE {})
                                             \* with charges in sequence B the sum must be in field 19 (absent here: D80);
                                             \* no field 19 here: the settlement amount itself must be the sum (D80);
                                             \* C01 concerns field 19, which these vectors never carry
  \* MT107 documents 32B and 71G as ONE currency group (every 71G in the settlement currency, USD here) and 71F as
  \* another; MT104 documents 32B, 71G and 71F as three groups
  \cup (IF (f.ntx >= 2 /\ f.cur2 # "same") \/ (f.chcur = "F" /\ HasF(f.chB) /\ HasF(f.chC))
           \/ (HasG(f.chB) /\ f.gcur # "USD") \/ (HasG(f.chC) /\ (f.chcur = "G" \/ f.gcur # "USD")) THEN {"C02"} ELSE {})
  \cup (IF f.code = "ZZZZ" /\ f.e23 # "none" THEN {"T47"} ELSE {})
  \cup (IF f.info /\ f.code # "OTHR" /\ f.e23 # "none" THEN {"D81"} ELSE {})
Opt107(p, tok, inA, i) == IF (inA /\ InA(p)) \/ (~inA /\ InB(p, i)) THEN <<tok>> ELSE <<>>
Tx107(f, i) ==
  <<"21">> \o Opt107(f.e23, "23E=" \o f.code \o (IF f.info THEN "/INFO" ELSE ""), FALSE, i) \o Opt107(f.f21E, "21E", FALSE, i)
  \o <<"32B=" \o (IF Deviates(f.cur2, i, f.ntx) THEN "EUR" ELSE "USD") \o ":" \o EachStr(f.mag)>>
  \o Opt107(f.ip, "50C", FALSE, i) \o Opt107(f.cr, "50K", FALSE, i) \o Opt107(f.f52, "52A", FALSE, i)
  \o <<"59=acct">> \o Opt107(f.f26T, "26T", FALSE, i) \o Opt107(f.f77B, "77B", FALSE, i)
  \o (IF i = 1 /\ f.f33 = "same" THEN <<"33B=USD:" \o EachStr(f.mag)>> ELSE IF i = 1 /\ f.f33 = "diffcur" THEN <<"33B=EUR:90">>
      ELSE IF i = 1 /\ f.f33 = "diffamt" THEN <<"33B=USD:" \o OtherStr(f.mag)>> ELSE <<>>)
  \o Opt107(f.f71A, "71A=SHA", FALSE, i)
  \o ChToksB(f)
  \o (IF i = 1 /\ f.f36 THEN <<"36">> ELSE <<>>)
Build107(f) ==
  <<"20">> \o Opt107(f.e23, "23E=" \o f.code \o (IF f.info THEN "/INFO" ELSE ""), TRUE, 0) \o Opt107(f.f21E, "21E", TRUE, 0)
  \o <<"30">> \o Opt107(f.ip, "50C", TRUE, 0) \o Opt107(f.cr, "50K", TRUE, 0) \o Opt107(f.f52, "52A", TRUE, 0)
  \o Opt107(f.f26T, "26T", TRUE, 0) \o Opt107(f.f77B, "77B", TRUE, 0) \o Opt107(f.f71A, "71A=SHA", TRUE, 0)
  \o (IF f.f72 THEN <<"72">> ELSE <<>>)
  \o Tx107(f, 1) \o (IF f.ntx >= 2 THEN Tx107(f, 2) ELSE <<>>) \o (IF f.ntx >= 3 THEN Tx107(f, 3) ELSE <<>>)
  \o <<"32B=USD:" \o TotalStr(f.mag, f.ntx, f.sumok, 7)>>
  \o ChToksC(f, f.chC, ToString(f.ntx))

(* ================================ MT104 ================================== *)
(* direct debit / request for direct debit: like MT107 plus the RFDD regime (C1, C12), an optional      *)
(* settlement sequence C and field 19                                                                     *)
Base104 == [ntx |-> 1, e23 |-> "A", codeA |-> "AUTH", codeB |-> "AUTH", info |-> FALSE, cr |-> "A", f21E |-> "none",
            f26T |-> "none", f77B |-> "none", f71A |-> "none", f52 |-> "none", ip |-> "none", f72 |-> FALSE, f21R |-> FALSE,
            seqC |-> TRUE, chB |-> "none", chC |-> "none", chcur |-> "same", gcur |-> "USD", f33 |-> "none", f36 |-> FALSE, sumok |-> TRUE, cur2 |-> "same",
            f19 |-> "none", mag |-> "unit"]
Facts104 ==
     {[Base104 EXCEPT !.ntx = n, !.e23 = a, !.codeA = c, !.cr = b, !.seqC = d, !.f21R = r] :
         n \in {1, 2}, a, b \in Place, c \in {"AUTH", "RFDD"}, d, r \in BOOLEAN}
  \cup {[Base104 EXCEPT !.ntx = 2, !.f21E = a, !.cr = b] : a \in Place, b \in {"A", "all", "first"}}
  \cup {[Base104 EXCEPT !.ntx = 2, !.f26T = a, !.f77B = b] : a, b \in {"none", "A", "first", "Aall"}}
  \cup {[Base104 EXCEPT !.ntx = 2, !.f71A = a, !.f52 = b, !.ip = c] : a, b, c \in {"none", "A", "first", "Aall"}}
  \cup {[Base104 EXCEPT !.codeA = a, !.info = b, !.f72 = c] : a \in {"AUTH", "NAUT", "OTHR", "RTND", "RFDD", "ZZZZ"}, b, c \in BOOLEAN}
  \cup {[Base104 EXCEPT !.e23 = "all", !.ntx = 2, !.codeB = a, !.info = b] : a \in {"AUTH", "OTHR", "RFDD", "RTND", "ZZZZ"}, b \in BOOLEAN}
  \cup {[Base104 EXCEPT !.e23 = "Aall", !.codeA = "RFDD", !.seqC = FALSE, !.f21R = r, !.f21E = a, !.f52 = b, !.chB = c] :
         r \in BOOLEAN, c \in {"none", "both"}, a, b \in {"none", "first"}}
  \cup {[Base104 EXCEPT !.chB = a, !.chC = b, !.seqC = c] : a, b \in Kinds, c \in BOOLEAN}
  \cup {[Base104 EXCEPT !.chB = a, !.chC = b, !.chcur = c, !.gcur = g] : a, b \in {"F", "G", "both"}, c \in ChCurs, g \in {"USD", "EUR"}}
  \cup {[Base104 EXCEPT !.f33 = a, !.f36 = b] : a \in {"none", "same", "diffcur", "diffamt"}, b \in BOOLEAN}
  \cup {[Base104 EXCEPT !.ntx = n, !.sumok = a, !.cur2 = b, !.f19 = c] : n \in {2, 3}, a \in BOOLEAN, b \in {"same", "diff", "lastdiff"}, c \in {"none", "ok", "bad"}}
  \cup {[Base104 EXCEPT !.ntx = n, !.sumok = a, !.f19 = c, !.mag = m] : n \in {2, 3}, a \in BOOLEAN, c \in {"none", "ok", "bad"}, m \in Mags}
  \cup {[Base104 EXCEPT !.f33 = a, !.f36 = b, !.mag = m] : a \in {"none", "same", "diffcur", "diffamt"}, b \in BOOLEAN, m \in Mags}
Expected104(f) ==
  LET a23 == InA(f.e23)
      rfdd == a23 /\ f.codeA = "RFDD"
      chC == IF f.seqC THEN f.chC ELSE "none"
      f19 == IF f.seqC THEN f.f19 ELSE "none"
  IN (IF (rfdd /\ ~InEveryB(f.e23, f.ntx)) \/ (a23 /\ ~rfdd /\ InAnyB(f.e23)) \/ (~a23 /\ ~InEveryB(f.e23, f.ntx))
      THEN {"C75"} ELSE {})
  \cup (IF (InA(f.cr) /\ InAnyB(f.cr)) \/ (~InA(f.cr) /\ ~InEveryB(f.cr, f.ntx)) THEN {"C76"} ELSE {})
  \cup (IF \E p \in {f.f21E, f.f26T, f.f77B, f.f71A, f.f52, f.ip} : InA(p) /\ InAnyB(p) THEN {"D73"} ELSE {})
  \cup (IF (InA(f.f21E) /\ ~InA(f.cr)) \/ (\E i \in 1..f.ntx : InB(f.f21E, i) /\ ~InB(f.cr, i)) THEN {"D77"} ELSE {})
  \cup (IF (a23 /\ f.codeA = "RTND") # f.f72 THEN {"C82"} ELSE {})
  \cup (IF HasF(f.chB) # HasF(chC) \/ HasG(f.chB) # HasG(chC) THEN {"D79"} ELSE {})
  \cup (IF f.f33 = "same" THEN {"D21"} ELSE {})
  \cup (IF (f.f33 = "diffcur" /\ ~f.f36) \/ (f.f33 # "diffcur" /\ f.f36) THEN {"D75"} ELSE {})
  \cup (IF f.seqC /\ ((f.sumok /\ f19 # "none") \/ (~f.sumok /\ f19 = "none")) THEN {"D80"} ELSE {})
  \cup (IF f19 = "bad" THEN {"C01"} ELSE {})
  \cup (IF (f.ntx >= 2 /\ f.cur2 # "same") \/ ChCurClash(f, chC) THEN {"C02"} ELSE {})
  \cup (IF rfdd /\ (InAnyB(f.f21E) \/ InAnyB(f.cr) \/ InAnyB(f.f52) \/ f.chB # "none" \/ f.seqC) THEN {"C96"} ELSE {})
  \cup (IF ~rfdd /\ (f.f21R \/ ~f.seqC) THEN {"C96"} ELSE {})
  \cup (IF (a23 /\ f.codeA = "ZZZZ") \/ (InAnyB(f.e23) /\ f.codeB \notin {"AUTH", "NAUT", "OTHR"}) THEN {"T47"} ELSE {})
  \cup (IF f.info /\ ((a23 /\ f.codeA # "OTHR") \/ (InAnyB(f.e23) /\ f.codeB # "OTHR")) THEN {"D81"} ELSE {})
Tx104(f, i) ==
  <<"21">> \o Opt107(f.e23, "23E=" \o f.codeB \o (IF f.info THEN "/INFO" ELSE ""), FALSE, i) \o Opt107(f.f21E, "21E", FALSE, i)
  \o <<"32B=" \o (IF Deviates(f.cur2, i, f.ntx) THEN "EUR" ELSE "USD") \o ":" \o EachStr(f.mag)>>
  \o Opt107(f.ip, "50C", FALSE, i) \o Opt107(f.cr, "50K", FALSE, i) \o Opt107(f.f52, "52A", FALSE, i)
  \o <<"59=acct">> \o Opt107(f.f26T, "26T", FALSE, i) \o Opt107(f.f77B, "77B", FALSE, i)
  \o (IF i = 1 /\ f.f33 = "same" THEN <<"33B=USD:" \o EachStr(f.mag)>> ELSE IF i = 1 /\ f.f33 = "diffcur" THEN <<"33B=EUR:90">>
      ELSE IF i = 1 /\ f.f33 = "diffamt" THEN <<"33B=USD:" \o OtherStr(f.mag)>> ELSE <<>>)
  \o Opt107(f.f71A, "71A=SHA", FALSE, i)
  \o ChToksB(f)
  \o (IF i = 1 /\ f.f36 THEN <<"36">> ELSE <<>>)
Build104(f) ==
  <<"20">> \o (IF f.f21R THEN <<"21R">> ELSE <<>>)
  \o Opt107(f.e23, "23E=" \o f.codeA \o (IF f.info THEN "/INFO" ELSE ""), TRUE, 0) \o Opt107(f.f21E, "21E", TRUE, 0)
  \o <<"30">> \o Opt107(f.ip, "50C", TRUE, 0) \o Opt107(f.cr, "50K", TRUE, 0) \o Opt107(f.f52, "52A", TRUE, 0)
  \o Opt107(f.f26T, "26T", TRUE, 0) \o Opt107(f.f77B, "77B", TRUE, 0) \o Opt107(f.f71A, "71A=SHA", TRUE, 0)
  \o (IF f.f72 THEN <<"72">> ELSE <<>>)
  \o Tx104(f, 1) \o (IF f.ntx >= 2 THEN Tx104(f, 2) ELSE <<>>) \o (IF f.ntx >= 3 THEN Tx104(f, 3) ELSE <<>>)
  \o (IF f.seqC
      THEN <<"32B=USD:" \o TotalStr(f.mag, f.ntx, f.sumok, 7)>>
           \o (IF f.f19 = "ok" THEN <<"19=" \o TotalStr(f.mag, f.ntx, TRUE, 0)>>
               ELSE IF f.f19 = "bad" THEN <<"19=" \o TotalStr(f.mag, f.ntx, FALSE, 3)>> ELSE <<>>)
           \o ChToksC(f, f.chC, "1")
      ELSE <<>>)

(* ================================ MT110 ================================== *)
Facts110 == {[n |-> n, cur2 |-> c] : n \in {1, 2, 3, 4, 10, 11}, c \in {"same", "diff", "lastdiff"}}
Expected110(f) == (IF f.n > 10 THEN {"T10"} ELSE {}) \cup (IF f.n >= 2 /\ f.cur2 # "same" THEN {"C02"} ELSE {})
Cheque(cur) == <<"21", "30", "32A=" \o cur \o ":100", "59=acct">>
RECURSIVE Cat(_)
Cat(ss) == IF ss = <<>> THEN <<>> ELSE Head(ss) \o Cat(Tail(ss))
Build110(f) == <<"20">> \o Cat([i \in 1..f.n |-> Cheque(IF Deviates(f.cur2, i, f.n) THEN "EUR" ELSE "USD")])

(* ============================ MT202 / MT205 ============================== *)
Facts202 == {[a56 |-> a, a57 |-> b, cov |-> c, b56 |-> d, b57 |-> e] : a, b, c, d, e \in BOOLEAN}
Expected202(f) == (IF f.a56 /\ ~f.a57 THEN {"C81"} ELSE {}) \cup (IF f.cov /\ f.b56 /\ ~f.b57 THEN {"C68"} ELSE {})
Build202(f) == <<"20", "21", "32A=USD:1000">> \o (IF f.a56 THEN <<"56A">> ELSE <<>>) \o (IF f.a57 THEN <<"57A">> ELSE <<>>)
               \o <<"58A">>
               \o (IF f.cov THEN <<"50K">> \o (IF f.b56 THEN <<"56A">> ELSE <<>>) \o (IF f.b57 THEN <<"57A">> ELSE <<>>) \o <<"59=acct">>
                   ELSE <<>>)
Facts205 == {[a56 |-> a, a57 |-> b] : a, b \in BOOLEAN}
Expected205(f) == IF f.a56 /\ ~f.a57 THEN {"C81"} ELSE {}
Build205(f) == <<"20", "21", "32A=USD:1000">> \o (IF f.a56 THEN <<"56A">> ELSE <<>>) \o (IF f.a57 THEN <<"57A">> ELSE <<>>) \o <<"58A">>

(* ================================ MT204 ================================== *)
Facts204 == {[n |-> n, sum |-> s, cur2 |-> c, mag |-> m] : n \in {1, 2, 3, 4, 10}, s \in BOOLEAN, c \in {"same", "diff", "lastdiff"}, m \in Mags}
Expected204(f) == (IF ~f.sum THEN {"C01"} ELSE {}) \cup (IF f.n >= 2 /\ f.cur2 # "same" THEN {"C02"} ELSE {})
Build204(f) == <<"19=" \o TotalStr(f.mag, f.n, f.sum, 1), "20", "30">>
               \o Cat([i \in 1..f.n |-> <<"20", "32B=" \o (IF Deviates(f.cur2, i, f.n) THEN "EUR" ELSE "USD") \o ":" \o EachStr(f.mag)>>])

(* ================================ MT210 ================================== *)
Party210 == {"none", "50", "52", "both"}
Facts210 == {[p1 |-> a, p2 |-> b, cur2 |-> c, n3 |-> 0] : a \in Party210, b \in Party210 \cup {"absent"}, c \in {"same", "diff"}}
            \cup {[p1 |-> "50", p2 |-> "52", cur2 |-> c, n3 |-> n] : c \in {"same", "diff", "lastdiff"}, n \in {1, 2}}
Expected210(f) == (IF f.p1 \in {"none", "both"} \/ f.p2 \in {"none", "both"} THEN {"C06"} ELSE {})
                  \cup (IF f.p2 # "absent" /\ f.cur2 # "same" THEN {"C02"} ELSE {})
Seq210(p, cur) == <<"32B=" \o cur \o ":100">> \o (IF p \in {"50", "both"} THEN <<"50">> ELSE <<>>)
                  \o (IF p \in {"52", "both"} THEN <<"52A">> ELSE <<>>)
Build210(f) == <<"20", "30">> \o Seq210(f.p1, "USD")
               \o (IF f.p2 = "absent" THEN <<>> ELSE Seq210(f.p2, IF Deviates(f.cur2, 2, 2 + f.n3) THEN "EUR" ELSE "USD"))
               \o Cat([i \in 1..f.n3 |-> Seq210("50", IF Deviates(f.cur2, 2 + i, 2 + f.n3) THEN "EUR" ELSE "USD")])

(* ================================ MT910 ================================== *)
Facts910 == {[h50 |-> a, h52 |-> b] : a, b \in BOOLEAN}
Expected910(f) == IF ~f.h50 /\ ~f.h52 THEN {"C06"} ELSE {}
Build910(f) == <<"20", "21", "25", "32A=USD:1000">> \o (IF f.h50 THEN <<"50K">> ELSE <<>>) \o (IF f.h52 THEN <<"52A">> ELSE <<>>)

(* ================================ MT920 ================================== *)
F34 == {"none", "one", "oneD", "oneC", "DC", "CD", "DD", "nomark2"}
\* "near": a different currency that shares its first two letters (USD / USN) -- C3 compares whole codes
\* pre: a sequence standing BEFORE the one the other facts describe -- none, a well-formed one, one asking for an
\* unknown message type (T88), one asking for MT942 without a floor limit (C22): violations of several rules in
\* several sequences at once (what each rule group reports must not depend on what an earlier one found)
Pre920 == {"none", "ok", "t88", "c22"}
Facts920 == {[c12 |-> a, f34 |-> b, cur2 |-> c, pre |-> "none"] : a \in {"940", "941", "942", "950", "103"}, b \in F34, c \in {"same", "diff", "near"}}
       \cup {[c12 |-> a, f34 |-> b, cur2 |-> "diff", pre |-> p] : a \in {"940", "942", "103"}, b \in {"none", "one", "oneD", "DC", "DD"}, p \in Pre920 \ {"none"}}
Expected920(f) ==
     (IF f.c12 \notin {"940", "941", "942", "950"} \/ f.pre = "t88" THEN {"T88"} ELSE {})
  \cup (IF (f.c12 = "942" /\ f.f34 = "none") \/ f.pre = "c22" THEN {"C22"} ELSE {})
  \cup (IF f.f34 \in {"oneD", "oneC", "CD", "DD", "nomark2"} THEN {"C23"} ELSE {})
  \cup (IF f.f34 \in {"DC", "CD", "DD", "nomark2"} /\ f.cur2 # "same" THEN {"C40"} ELSE {})
Build920(f) ==
  LET c2 == IF f.cur2 = "diff" THEN "EUR" ELSE IF f.cur2 = "near" THEN "USN" ELSE "USD" IN
  <<"20">>
  \o (CASE f.pre = "none" -> <<>> [] f.pre = "ok" -> <<"12=940", "25">> [] f.pre = "t88" -> <<"12=999", "25">>
        [] f.pre = "c22" -> <<"12=942", "25">>)
  \o <<"12=" \o f.c12, "25">>
  \o (CASE f.f34 = "none" -> <<>> [] f.f34 = "one" -> <<"34F=USD::10">> [] f.f34 = "oneD" -> <<"34F=USD:D:10">>
        [] f.f34 = "oneC" -> <<"34F=USD:C:10">> [] f.f34 = "DC" -> <<"34F=USD:D:10", "34F=" \o c2 \o ":C:10">>
        [] f.f34 = "CD" -> <<"34F=USD:C:10", "34F=" \o c2 \o ":D:10">> [] f.f34 = "DD" -> <<"34F=USD:D:10", "34F=" \o c2 \o ":D:10">>
        [] f.f34 = "nomark2" -> <<"34F=USD::10", "34F=" \o c2 \o "::10">>)

(* ================================ MT935 ================================== *)
Facts935 == {[id |-> a, neg |-> b, zero |-> c] : a \in {"23", "25"}, b, c \in BOOLEAN}
Expected935(f) == IF f.neg /\ f.zero THEN {"T14"} ELSE {}
Build935(f) == <<"20", f.id, "30", "37H=C:" \o (IF f.neg THEN "N" ELSE "") \o ":" \o (IF f.zero THEN "0" ELSE "2")>>

(* ========================== MT940 / 941 / 942 / 950 ====================== *)
Cur3 == {"USD", "USN", "EUR"}            \* USN shares the first two characters with USD
Pfx(c) == IF c \in {"USD", "USN"} THEN "US" ELSE "EU"
Facts940 == {[c62 |-> a, c64 |-> b, c65 |-> c] : a \in Cur3, b \in Cur3 \cup {"none"}, c \in Cur3 \cup {"none"}}
Expected940(f) == IF Pfx(f.c62) # "US" \/ (f.c64 # "none" /\ Pfx(f.c64) # "US") \/ (f.c65 # "none" /\ Pfx(f.c65) # "US")
                  THEN {"C27"} ELSE {}
Build940(f) == <<"20", "25", "28C", "60F=C:USD", "61", "62F=C:" \o f.c62>>
               \o (IF f.c64 = "none" THEN <<>> ELSE <<"64=C:" \o f.c64>>) \o (IF f.c65 = "none" THEN <<>> ELSE <<"65=C:" \o f.c65>>)
Facts941 == {[c60 |-> a, c90d |-> b, c90c |-> c, c64 |-> d, c65 |-> e] :
                a, b, c \in {"USD", "EUR", "none"}, d, e \in {"USN", "EUR", "none"}}
Expected941(f) == IF \E c \in {f.c60, f.c90d, f.c90c, f.c64, f.c65} : c # "none" /\ Pfx(c) # "US" THEN {"C27"} ELSE {}
Build941(f) == <<"20", "25", "28">> \o (IF f.c60 = "none" THEN <<>> ELSE <<"60F=C:" \o f.c60>>)
               \o (IF f.c90d = "none" THEN <<>> ELSE <<"90D=" \o f.c90d>>) \o (IF f.c90c = "none" THEN <<>> ELSE <<"90C=" \o f.c90c>>)
               \o <<"62F=C:USD">> \o (IF f.c64 = "none" THEN <<>> ELSE <<"64=C:" \o f.c64>>)
               \o (IF f.c65 = "none" THEN <<>> ELSE <<"65=C:" \o f.c65>>)
F34_942 == {"one", "oneD", "DC", "CD", "nomark2"}
Facts942 == {[f34 |-> a, cur2 |-> b, c90d |-> c, c90c |-> d] : a \in F34_942, b \in {"USD", "USN", "EUR"},
                c, d \in {"USD", "EUR", "none"}}
Expected942(f) ==
     (IF f.f34 \in {"oneD", "CD", "nomark2"} THEN {"C23"} ELSE {})
  \cup (IF (f.f34 \in {"DC", "CD", "nomark2"} /\ Pfx(f.cur2) # "US") \/ (f.c90d # "none" /\ Pfx(f.c90d) # "US")
          \/ (f.c90c # "none" /\ Pfx(f.c90c) # "US") THEN {"C27"} ELSE {})
Build942(f) ==
  <<"20", "25", "28C">>
  \o (CASE f.f34 = "one" -> <<"34F=USD::10">> [] f.f34 = "oneD" -> <<"34F=USD:D:10">>
        [] f.f34 = "DC" -> <<"34F=USD:D:10", "34F=" \o f.cur2 \o ":C:10">>
        [] f.f34 = "CD" -> <<"34F=USD:C:10", "34F=" \o f.cur2 \o ":D:10">>
        [] f.f34 = "nomark2" -> <<"34F=USD::10", "34F=" \o f.cur2 \o "::10">>)
  \o <<"13D">> \o (IF f.c90d = "none" THEN <<>> ELSE <<"90D=" \o f.c90d>>) \o (IF f.c90c = "none" THEN <<>> ELSE <<"90C=" \o f.c90c>>)
Facts950 == {[c62 |-> a, c64 |-> b] : a \in Cur3, b \in Cur3 \cup {"none"}}
Expected950(f) == IF Pfx(f.c62) # "US" \/ (f.c64 # "none" /\ Pfx(f.c64) # "US") THEN {"C27"} ELSE {}
Build950(f) == <<"20", "25", "28C", "60F=C:USD", "62F=C:" \o f.c62>> \o (IF f.c64 = "none" THEN <<>> ELSE <<"64=C:" \o f.c64>>)

(* ================================ MT192 ================================== *)
Facts192 == {[h79 |-> a] : a \in BOOLEAN}
Expected192(f) == IF ~f.h79 THEN {"C25"} ELSE {}
Build192(f) == <<"20", "21", "11S">> \o (IF f.h79 THEN <<"79">> ELSE <<>>)

(* ================================ MT200 ================================== *)
(* no network rule in the standard; the library reports T80 (payments reject / return guidelines apply)   *)
(* whenever a line of field 72 starts with the code word REJT or RETN, in any case, with or without the   *)
(* closing slash                                                                                          *)
Facts200 == {[f72 |-> a] : a \in {"none", "plain", "REJT", "RETN", "lower", "open", "second", "inline"}}
Expected200(f) == IF f.f72 \in {"REJT", "RETN", "lower", "open", "second"} THEN {"T80"} ELSE {}
Build200(f) == <<"20", "32A=USD:100", "57A">> \o (IF f.f72 = "none" THEN <<>> ELSE <<"72=" \o f.f72>>)

(* ===================== types without network rules ======================= *)
NoRule == {"111", "112", "190", "191", "196", "199", "290", "291", "292", "296", "299", "900"}
Minimal(t) == CASE t \in {"111"} -> <<"20", "21", "30", "32A=USD:100">>
                [] t = "112" -> <<"20", "21", "30", "32A=USD:100", "76">>
                [] t \in {"190", "290"} -> <<"20", "21", "25", "32C">>  \o <<"71B">>
                [] t \in {"191", "291"} -> <<"20", "21", "32B=USD:100", "71B">>
                [] t \in {"199", "299"} -> <<"20", "79">>
                [] t \in {"196", "296"} -> <<"20", "21", "76">>      \* C1 (C31) is documented as not checkable
                [] t = "292" -> <<"20", "21", "11S", "79">>          \* without 79 the parser already refuses
                [] t = "900" -> <<"20", "21", "25", "32A=USD:100">>

(* ================================ dispatch =============================== *)
Ruled == {"101", "104", "107", "103", "110", "202", "204", "205", "210", "910", "920", "935", "940", "941", "942", "950", "192", "200"}
Facts(t) == CASE t = "101" -> Facts101 [] t = "104" -> Facts104 [] t = "107" -> Facts107 [] t = "103" -> Facts103 [] t = "110" -> Facts110 [] t = "202" -> Facts202 [] t = "204" -> Facts204
              [] t = "205" -> Facts205 [] t = "210" -> Facts210 [] t = "910" -> Facts910 [] t = "920" -> Facts920
              [] t = "935" -> Facts935 [] t = "940" -> Facts940 [] t = "941" -> Facts941 [] t = "942" -> Facts942
              [] t = "950" -> Facts950 [] t = "192" -> Facts192 [] t = "200" -> Facts200 [] OTHER -> {[none |-> TRUE]}
Expected(t, f) == CASE t = "101" -> Expected101(f) [] t = "104" -> Expected104(f) [] t = "107" -> Expected107(f) [] t = "103" -> Expected103(f) [] t = "110" -> Expected110(f) [] t = "202" -> Expected202(f)
              [] t = "204" -> Expected204(f) [] t = "205" -> Expected205(f) [] t = "210" -> Expected210(f)
              [] t = "910" -> Expected910(f) [] t = "920" -> Expected920(f) [] t = "935" -> Expected935(f)
              [] t = "940" -> Expected940(f) [] t = "941" -> Expected941(f) [] t = "942" -> Expected942(f)
              [] t = "950" -> Expected950(f) [] t = "192" -> Expected192(f) [] t = "200" -> Expected200(f) [] OTHER -> {}
Build(t, f) == CASE t = "101" -> Build101(f) [] t = "104" -> Build104(f) [] t = "107" -> Build107(f) [] t = "103" -> Build103(f) [] t = "110" -> Build110(f) [] t = "202" -> Build202(f)
              [] t = "204" -> Build204(f) [] t = "205" -> Build205(f) [] t = "210" -> Build210(f)
              [] t = "910" -> Build910(f) [] t = "920" -> Build920(f) [] t = "935" -> Build935(f)
              [] t = "940" -> Build940(f) [] t = "941" -> Build941(f) [] t = "942" -> Build942(f)
              [] t = "950" -> Build950(f) [] t = "192" -> Build192(f) [] t = "200" -> Build200(f) [] OTHER -> Minimal(t)

VARIABLES mt, facts
vars == <<mt, facts>>
Init == mt \in TypesUnderTest /\ facts \in Facts(mt)
Next == UNCHANGED vars
Spec == Init /\ [][Next]_vars

(* design-level: the baseline of every ruled type is valid; every code of a type is producible *)
RulesTotal == Expected(mt, facts) \subseteq {"E54", "D75", "E01", "E02", "E06", "C81", "E16", "E17", "E13", "D50", "E15", "D51", "C02",
                                             "E18", "E44", "E45", "T36", "T48", "D97", "E46", "D98", "D67", "T10", "C68",
                                             "C01", "C06", "T88", "C22", "C23", "C40", "T14", "C27", "C25",
                                             "D54", "D60", "D61", "D62", "D68", "D64", "D65", "T47", "D66", "D86", "D73", "D77",
                                             "C82", "D79", "D21", "D81", "D80", "C75", "C76", "C96", "T80"}
BaselineValid == Expected103(Base103) = {} /\ Expected101(Base101) = {} /\ Expected107(Base107) = {} /\ Expected104(Base104) = {}

Emit == EmitCases => PrintT(ToJson([mt |-> mt, toks |-> Build(mt, facts), exp |-> Expected(mt, facts), facts |-> facts]))
=============================================================================
