SPECIFICATION Spec
CONSTANTS
  MaxGroups = 6
  MaxErrPerGroup = 3
INVARIANTS ProgramComputesRun PrefixLemma EmptinessAgrees AdaptersAgree
CHECK_DEADLOCK FALSE
