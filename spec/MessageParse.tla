---------------------------- MODULE MessageParse ----------------------------
(***************************************************************************)
(* Message-level reference model: generation of layout walks, mutation,    *)
(* and the reference parse (one Consume step per token).                   *)
(*                                                                         *)
(*   phase "gen"   one step per layout item: the generator decides         *)
(*                 nondeterministically which optional items, options and  *)
(*                 repetition counts the message has                       *)
(*   phase "mut"   at most MaxMut mutation steps: insert a foreign field,  *)
(*                 insert a field of the type out of position, duplicate,  *)
(*                 swap neighbours, corrupt a content, delete a field,     *)
(*                 change a field's option letter                          *)
(*   phase "walk"  the reference parser consumes the token sequence        *)
(*   phase "done"  verdict available; Emit prints the behaviour as JSON    *)
(*                                                                         *)
(* Properties decided here (on the design):                                *)
(*   UnmutatedAccepted   C03  every generated walk is accepted             *)
(*   NoSilentLoss        C01  accepted => every token consumed in order    *)
(*   RejectNamesCulprit  C09  single delete of a mandatory occurrence /    *)
(*                            single corruption => reject naming it        *)
(* The same behaviours are replayed against the implementation by the      *)
(* harness (spec -> impl) which compares exactly those observables.        *)
(***************************************************************************)
EXTENDS Walker, TLC, Json

CONSTANTS
  TypesUnderTest,   \* subset of Types
  K,                \* sparse walks: at most K optional elements present
  MaxMut,           \* 0, 1 or 2 mutation steps
  MutKinds,         \* subset of {"insf","dup","swap","bad","del","own"}
  MutateAll,        \* TRUE: mutate every walk; FALSE: only the base walks (see MutBase)
  Modes,            \* subset of {"sparse","full","cofull","cap","overcap"}
  EmitCases         \* TRUE: print one JSON line per terminal state

VARIABLES mt, mode, phase, gpc, left, toks, nopt, nalt, muts, w, pos, out, verdict

vars == <<mt, mode, phase, gpc, left, toks, nopt, nalt, muts, w, pos, out, verdict>>

Tok(tag)   == [tag |-> tag, ok |-> TRUE]
Foreign    == "ZZ"          \* a tag outside every layout
L          == Layout(mt)

HasBoundedLoop(t) == \E i \in 1..Len(Layout(t)) :
                        Layout(t)[i].k = "LB" /\ Layout(t)[i].max > 1 /\ Layout(t)[i].max < Unbounded

HasOptionalSeq(t) == \E b \in 1..Len(Layout(t)) : Layout(t)[b].k = "LB" /\ Layout(t)[b].min = 0

Init ==
  /\ mt \in TypesUnderTest
  /\ mode \in Modes
  /\ (mode \in {"cap", "overcap"}) => HasBoundedLoop(mt)
  /\ (mode = "cofull") => HasOptionalSeq(mt)
  /\ phase = "gen" /\ gpc = 1 /\ left = 0
  /\ toks = <<>> /\ nopt = 0 /\ nalt = 0 /\ muts = <<>>
  /\ w = W0 /\ pos = 1 /\ out = <<>>
  /\ verdict = [res |-> "none", kind |-> "", tag |-> ""]

(* ------------------------------ generation ------------------------------ *)
Sparse == mode \in {"sparse", "cap", "overcap"}
Budget == IF mode = "sparse" THEN K ELSE 0   \* cap / overcap walks carry no optional element
\* "cofull": the dual of "sparse" -- everything present except at most KCo optional fields (nopt counts the
\* omissions).  It reaches the places where an optional sequence or a transaction stands with only SOME of its
\* fields, e.g. a settlement sequence whose first remaining field is its third optional one.
CoFull == mode = "cofull"
KCo == 3
\* ... and only fields of an OPTIONAL sequence (LB with min = 0) are omitted: that is where a sequence can
\* stand with only some of its fields while everything around it is present
InOptionalSeq(i) == \E b \in 1..(i - 1) : L[b].k = "LB" /\ L[b].min = 0 /\ EndOf(L, b) > i

(* option choices of an item: the default always, any other once per walk *)
TagChoices(it) == {it.tags[1]} \cup (IF nalt = 0 THEN Range(it.tags) ELSE {})

RepChoices(it) ==
  CASE mode = "sparse"  -> {n \in {it.min, 1, 2} : n <= it.max}
    [] mode \in {"full", "cofull"} -> {IF it.max >= 2 THEN 2 ELSE it.max}
    [] mode = "cap"     -> {IF it.max < Unbounded /\ it.max > 1 THEN it.max ELSE IF it.min > 1 THEN it.min ELSE 1}
    [] mode = "overcap" -> {IF it.max < Unbounded /\ it.max > 1 THEN it.max + 1 ELSE IF it.min > 1 THEN it.min ELSE 1}

Copies(tag, n) == [i \in 1..n |-> Tok(tag)]

GenField(it) ==
  \/ \* present once
     /\ it.k = "F" \/ ~Sparse \/ nopt < Budget
     /\ \E t \in TagChoices(it) :
          /\ toks' = Append(toks, Tok(t))
          /\ nalt' = IF t = it.tags[1] THEN nalt ELSE 1
     /\ nopt' = IF it.k = "F" \/ ~Sparse THEN nopt ELSE nopt + 1
  \/ \* absent
     /\ it.k = "O" /\ (Sparse \/ (CoFull /\ nopt < KCo /\ InOptionalSeq(gpc)))
     /\ nopt' = IF CoFull THEN nopt + 1 ELSE nopt
     /\ UNCHANGED <<toks, nalt>>

GenRepeat(it) ==
  \E n \in (IF Sparse
            THEN {it.min} \cup (IF nopt < Budget THEN {it.min + 1} ELSE {})
            ELSE {IF it.max >= 2 THEN (IF it.min > 2 THEN it.min ELSE 2) ELSE it.max}) :
     /\ toks' = toks \o Copies(it.tags[1], n)
     /\ nopt' = IF n > it.min THEN nopt + 1 ELSE nopt
     /\ UNCHANGED nalt

Gen ==
  /\ phase = "gen"
  /\ IF gpc > Len(L)
     THEN /\ phase' = IF MaxMut > 0 THEN "mut" ELSE "walk"
          /\ UNCHANGED <<gpc, left, toks, nopt, nalt>>
     ELSE LET it == L[gpc] IN
       CASE it.k \in {"F", "O"} -> /\ GenField(it)
                                   /\ gpc' = gpc + 1 /\ UNCHANGED <<left, phase>>
         [] it.k = "R"  -> /\ GenRepeat(it)
                           /\ gpc' = gpc + 1 /\ UNCHANGED <<left, phase>>
         [] it.k = "LB" -> /\ \E n \in RepChoices(it) :
                                IF n = 0 THEN gpc' = EndOf(L, gpc) + 1 /\ left' = 0
                                         ELSE gpc' = gpc + 1 /\ left' = n
                           /\ UNCHANGED <<toks, nopt, nalt, phase>>
         [] it.k = "LE" -> /\ IF left > 1 THEN gpc' = BeginOf(L, gpc) + 1 /\ left' = left - 1
                                          ELSE gpc' = gpc + 1 /\ left' = 0
                           /\ UNCHANGED <<toks, nopt, nalt, phase>>
  /\ UNCHANGED <<mt, mode, muts, w, pos, out, verdict>>

(* ------------------------------- mutation -------------------------------- *)
InsertAt(s, p, e) == SubSeq(s, 1, p - 1) \o <<e>> \o SubSeq(s, p, Len(s))
RemoveAt(s, p)    == SubSeq(s, 1, p - 1) \o SubSeq(s, p + 1, Len(s))

(* base walks: nothing optional / everything present, default options *)
MutBase == MutateAll \/ (nalt = 0 /\ (nopt = 0 \/ mode = "full") /\ mode \in {"sparse", "full"}) \/ (CoFull /\ nalt = 0)
\* cofull walks are bases of deletions only (their point is what follows a deleted mandatory field)
KindOn(k) == k \in MutKinds /\ (CoFull => k = "del")

Mutants ==   \* set of <<mutation record, new token sequence>>
  LET n == Len(toks) IN
     (IF KindOn("insf")
        THEN {<<[k |-> "insf", p |-> p, t |-> Foreign], InsertAt(toks, p, Tok(Foreign))>> : p \in 1..(n + 1)}
        ELSE {})
  \cup (IF KindOn("dup")
        THEN {<<[k |-> "dup", p |-> p, t |-> toks[p].tag], InsertAt(toks, p + 1, toks[p])>> : p \in 1..n}
        ELSE {})
  \cup (IF KindOn("swap")
        THEN {<<[k |-> "swap", p |-> p, t |-> toks[p].tag],
                [toks EXCEPT ![p] = toks[p + 1], ![p + 1] = toks[p]]>> :
                   p \in {q \in 1..(n - 1) : toks[q] # toks[q + 1]}}
        ELSE {})
  \cup (IF KindOn("bad")
        THEN {<<[k |-> "bad", p |-> p, t |-> toks[p].tag], [toks EXCEPT ![p].ok = FALSE]>> :
                   p \in {q \in 1..n : toks[q].ok /\ toks[q].tag # Foreign}}
        ELSE {})
  \cup (IF KindOn("del")
        THEN {<<[k |-> "del", p |-> p, t |-> toks[p].tag], RemoveAt(toks, p)>> : p \in 1..n}
        ELSE {})
  \cup (IF KindOn("letter")      \* same field, another option letter of its family
        THEN UNION {{<<[k |-> "letter", p |-> p, t |-> t], [toks EXCEPT ![p].tag = t]>> :
                       t \in SiblingsOf(toks[p].tag)} : p \in 1..n}
        ELSE {})
  \cup (IF KindOn("own")
        THEN {<<[k |-> "own", p |-> p, t |-> t], InsertAt(toks, p, Tok(t))>> :
                   p \in 1..(n + 1), t \in Alphabet(mt)}
        ELSE {})

Mutate ==
  /\ phase = "mut"
  /\ \/ /\ phase' = "walk" /\ UNCHANGED <<toks, muts>>          \* stop mutating
     \/ /\ Len(muts) < MaxMut /\ MutBase
        /\ \E m \in Mutants : toks' = m[2] /\ muts' = Append(muts, m[1])
        /\ UNCHANGED phase
  /\ UNCHANGED <<mt, mode, gpc, left, nopt, nalt, w, pos, out, verdict>>

(* --------------------------- reference parsing --------------------------- *)
Consume ==
  /\ phase = "walk" /\ pos <= Len(toks)
  /\ LET r == Advance(L, w, toks[pos].tag, toks[pos].ok) IN
       IF r.res = "ok"
       THEN /\ w' = r.w /\ pos' = pos + 1 /\ out' = Append(out, toks[pos])
            /\ UNCHANGED <<phase, verdict>>
       ELSE /\ verdict' = [res |-> "reject", kind |-> r.kind, tag |-> r.tag]
            /\ phase' = "done" /\ UNCHANGED <<w, pos, out>>
  /\ UNCHANGED <<mt, mode, gpc, left, toks, nopt, nalt, muts>>

EndOfInput ==
  /\ phase = "walk" /\ pos > Len(toks)
  /\ verdict' = Finish(L, w)
  /\ phase' = "done"
  /\ UNCHANGED <<mt, mode, gpc, left, toks, nopt, nalt, muts, w, pos, out>>

Next == Gen \/ Mutate \/ Consume \/ EndOfInput

Spec == Init /\ [][Next]_vars

(* ------------------------------ properties ------------------------------- *)
TypeOK ==
  /\ mt \in Types /\ phase \in {"gen", "mut", "walk", "done"}
  /\ pos \in 1..(Len(toks) + 1)
  /\ verdict.res \in {"none", "accept", "reject"}

TableOK == \A t \in TypesUnderTest : LayoutOK(Layout(t))

(* C03 on the design: a generated, unmutated walk (within the caps) is accepted *)
UnmutatedAccepted ==
  (phase = "done" /\ muts = <<>> /\ mode # "overcap") => verdict.res = "accept"

(* over-cap repetitions are refused as such *)
OverCapRejected ==
  (phase = "done" /\ muts = <<>> /\ mode = "overcap") =>
     (verdict.res = "reject" /\ verdict.kind = "toomany")

(* C01 on the design: acceptance means every token was consumed, in order *)
NoSilentLoss ==
  (phase = "done" /\ verdict.res = "accept") => (out = toks /\ \A i \in 1..Len(toks) : toks[i].ok)

(* C09 on the design: the single-mutation culprits are named *)
RejectNamesCulprit ==
  (phase = "done" /\ Len(muts) = 1) =>
     /\ (muts[1].k = "bad" /\ mode # "overcap") =>
           (verdict.res = "reject" /\ verdict.kind = "invalid" /\ verdict.tag = muts[1].t)
     /\ (muts[1].k = "insf" /\ mode # "overcap") =>
           (verdict.res = "reject" /\ verdict.kind \in {"unexpected", "missing", "missingseq"})

(* a foreign tag is never consumed *)
ForeignNeverConsumed == \A i \in 1..Len(out) : out[i].tag # Foreign

(* the walk phase is deterministic: Advance is a function (holds by construction) *)

(* ------------------------------- emission -------------------------------- *)
TokStr(t) == IF t.ok THEN t.tag ELSE "!" \o t.tag
Case == [mt |-> mt, mode |-> mode, nopt |-> nopt, nalt |-> nalt,
         t |-> [i \in 1..Len(toks) |-> TokStr(toks[i])],
         m |-> muts, v |-> verdict.res, k |-> verdict.kind, g |-> verdict.tag]

Emit == (EmitCases /\ phase = "done") => PrintT(ToJson(Case))
=============================================================================
