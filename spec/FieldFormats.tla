---------------------------- MODULE FieldFormats ----------------------------
(***************************************************************************)
(* The documented formats of the field types, in a small algebra that      *)
(* mirrors the SWIFT notation, a generic matcher over concrete characters  *)
(* (the reference acceptor, set-of-positions semantics, so ambiguous       *)
(* segmentations are handled), and a shape generator.                      *)
(*                                                                         *)
(*   Cl(cls,min,max)   min..max characters of class n a c x                *)
(*   Lit(ch)           one literal character                               *)
(*   Opt(body)         [ ... ]                                             *)
(*   Alt(<<b1,b2,..>>) one of several bodies                               *)
(*   Lines(lo,hi,body) lo..hi lines, each matching body, separated by NL   *)
(*   NL                line break                                          *)
(*   Sem(name,max)     DATE TIME SIGN OFFS CUR BIC DC AMT                  *)
(*   Code(set)         one of a set of code words                          *)
(*                                                                         *)
(* The generator (GenSeq) produces, per field, the typical content plus    *)
(* every content that deviates from it in at most Budget components        *)
(* (boundary lengths, absent/present optional parts, line counts, foreign  *)
(* characters, invalid semantic values, trailing garbage).  The verdict of *)
(* every generated content is COMPUTED by the matcher, never assumed.      *)
(***************************************************************************)
EXTENDS Naturals, Sequences, FiniteSets, TLC, Json

CONSTANTS Budget, FieldsUnderTest, EmitCases

(* ------------------------------ characters ------------------------------ *)
Digits   == {"0", "1", "2", "3", "4", "5", "6", "7", "8", "9"}
Upper    == {"A", "B", "C", "D", "E", "F", "G", "H", "I", "J", "K", "L", "M", "N", "O", "P", "Q", "R",
             "S", "T", "U", "V", "W", "X", "Y", "Z"}
Lower    == {"a", "b", "c", "d", "z"}
\* the library's documented x set (swift_utils::parse_swift_chars): letters, digits and
\* / - ? : ( ) . , ' + { } SPACE % & * ; < = > @ [ ] _ $ ! " # |   (CR LF separate lines and are
\* never part of a line's characters)
XSpecial == {"/", "-", "?", ":", "(", ")", ".", ",", "'", "+", "{", "}", " ", "%", "&", "*", ";", "<", "=", ">",
             "@", "[", "]", "_", "$", "!", "#", "|"}
InClass(cls, ch) ==
  CASE cls = "n" -> ch \in Digits
    [] cls = "a" -> ch \in Upper
    [] cls = "c" -> ch \in Upper \cup Digits
    [] cls = "x" -> ch \in Upper \cup Lower \cup Digits \cup XSpecial

DigitVal(ch) == CASE ch = "0" -> 0 [] ch = "1" -> 1 [] ch = "2" -> 2 [] ch = "3" -> 3 [] ch = "4" -> 4
                  [] ch = "5" -> 5 [] ch = "6" -> 6 [] ch = "7" -> 7 [] ch = "8" -> 8 [] ch = "9" -> 9
Num2(s, p) == DigitVal(s[p]) * 10 + DigitVal(s[p + 1])
AllDigits(s, p, n) == p + n - 1 <= Len(s) /\ \A i \in p..(p + n - 1) : s[i] \in Digits

Leap(y) == (y % 4 = 0 /\ y % 100 # 0) \/ y % 400 = 0
DaysIn(y, m) == CASE m \in {1, 3, 5, 7, 8, 10, 12} -> 31 [] m \in {4, 6, 9, 11} -> 30
                  [] m = 2 -> IF Leap(y) THEN 29 ELSE 28 [] OTHER -> 0
FullYear(yy) == IF yy <= 49 THEN 2000 + yy ELSE 1900 + yy

(* ------------------------------ components ------------------------------ *)
Comp(k, cls, lo, hi, ch, body, alts, set) ==
  [k |-> k, cls |-> cls, min |-> lo, max |-> hi, ch |-> ch, body |-> body, alts |-> alts, set |-> set]
Cl(cls, lo, hi)     == Comp("cls", cls, lo, hi, "", <<>>, <<>>, {})
Lit(ch)             == Comp("lit", "", 1, 1, ch, <<>>, <<>>, {})
Opt(body)           == Comp("opt", "", 0, 1, "", body, <<>>, {})
Alt(alts)           == Comp("alt", "", 1, 1, "", <<>>, alts, {})
\* alternatives of which the first n begin with the identifier line
AltId(alts, n)      == [x \in DOMAIN Alt(alts) \cup {"idn"} |-> IF x = "idn" THEN n ELSE Alt(alts)[x]]
Lines(lo, hi, body) == Comp("lines", "", lo, hi, "", body, <<>>, {})
NL                  == Comp("nl", "", 1, 1, "\n", <<>>, <<>>, {})
Sem(name, hi)       == Comp("sem", name, 1, hi, "", <<>>, <<>>, {})
Code(set)           == Comp("code", "", 1, 1, "", <<>>, <<>>, set)

(* -------------------------------- matcher -------------------------------- *)
SemEnds(s, name, hi, p) ==
  CASE name = "DATE" -> IF AllDigits(s, p, 6) /\ Num2(s, p + 2) \in 1..12
                           /\ Num2(s, p + 4) \in 1..DaysIn(FullYear(Num2(s, p)), Num2(s, p + 2))
                        THEN {p + 6} ELSE {}
    [] name = "TIME" -> IF AllDigits(s, p, 4) /\ Num2(s, p) <= 23 /\ Num2(s, p + 2) <= 59 THEN {p + 4} ELSE {}
    [] name = "OFFS" -> IF AllDigits(s, p, 4) /\ Num2(s, p) <= 14 /\ Num2(s, p + 2) <= 59 THEN {p + 4} ELSE {}
    [] name = "SIGN" -> IF p <= Len(s) /\ s[p] \in {"+", "-"} THEN {p + 1} ELSE {}
    [] name = "DC"   -> IF p <= Len(s) /\ s[p] \in {"C", "D"} THEN {p + 1} ELSE {}
    [] name = "CUR"  -> IF p + 2 <= Len(s) /\ \A i \in p..(p + 2) : s[i] \in Upper THEN {p + 3} ELSE {}
    [] name = "BIC"  -> {q \in {p + 8, p + 11} :
                           /\ q <= Len(s) + 1
                           /\ \A i \in p..(p + 5) : s[i] \in Upper
                           /\ \A i \in (p + 6)..(q - 1) : s[i] \in Upper \cup Digits}
    [] name \in {"AMT", "AMT0", "RATE"} -> {q \in (p + 1)..(p + hi) :
                           /\ q <= Len(s) + 1
                           /\ s[p] \in Digits
                           /\ \A i \in p..(q - 1) : s[i] \in Digits \cup {","}
                           /\ Cardinality({i \in p..(q - 1) : s[i] = ","}) <= 1}

RECURSIVE MSeq(_, _, _, _), MOne(_, _, _), MLines(_, _, _, _)
MSeq(s, cs, k, P) ==
  IF k > Len(cs) \/ P = {} THEN P
  ELSE MSeq(s, cs, k + 1, UNION {MOne(s, cs[k], p) : p \in P})

MOne(s, c, p) ==
  CASE c.k = "cls"  -> {q \in (p + c.min)..(p + c.max) :
                          /\ q <= Len(s) + 1 /\ \A i \in p..(q - 1) : InClass(c.cls, s[i])
                          \* a reference that a "//" separator may follow contains no "//" itself
                          /\ (c.ch = "nodbl" => \A i \in p..(q - 2) : ~(s[i] = "/" /\ s[i + 1] = "/"))}
    [] c.k = "lit"  -> IF p <= Len(s) /\ s[p] = c.ch THEN {p + 1} ELSE {}
    \* a line ends with LF or with CR LF (the library documents both); a stray CR is no line end and no x character
    [] c.k = "nl"   -> (IF p <= Len(s) /\ s[p] = "\n" THEN {p + 1} ELSE {})
                       \cup (IF p + 1 <= Len(s) /\ s[p] = "\r" /\ s[p + 1] = "\n" THEN {p + 2} ELSE {})
    [] c.k = "opt"  -> {p} \cup MSeq(s, c.body, 1, {p})
    [] c.k = "alt"  -> UNION {MSeq(s, c.alts[a], 1, {p}) : a \in 1..Len(c.alts)}
    [] c.k = "sem"  -> SemEnds(s, c.cls, c.max, p)
    [] c.k = "code" -> {p + Len(w) : w \in {v \in c.set : p + Len(v) - 1 <= Len(s) /\
                                                  \A i \in 1..Len(v) : s[p + i - 1] = v[i]}}
    [] c.k = "lines" -> MLines(s, c, {p}, 1)

(* n = number of the line about to be matched *)
MLines(s, c, P, n) ==
  IF n > c.max \/ P = {} THEN {}
  ELSE LET Q == MSeq(s, c.body, 1, P)
           done == IF n >= c.min THEN Q ELSE {}
           next == {q + 1 : q \in {r \in Q : r <= Len(s) /\ s[r] = "\n"}}
                   \cup {q + 2 : q \in {r \in Q : r + 1 <= Len(s) /\ s[r] = "\r" /\ s[r + 1] = "\n"}}
       IN done \cup MLines(s, c, next, n + 1)

NoSlashEdge(s) == /\ Len(s) > 0 /\ s[1] # "/" /\ s[Len(s)] # "/"
                  /\ \A i \in 1..(Len(s) - 1) : ~(s[i] = "/" /\ s[i + 1] = "/")

\* A first line that starts with "/" IS the party-identifier / account line of the format: SWIFT never
\* reads it as a name-and-address (or location) line, although "/" belongs to the x character set.
\* So for such contents the optional first line is matched as present.
IdLineFirst(fmt) == fmt[1].k = "opt" /\ fmt[1].body[Len(fmt[1].body)].k = "nl" /\ Len(fmt) > 1
IdAlts(fmt) == fmt[1].k = "alt" /\ "idn" \in DOMAIN fmt[1]     \* the first idn alternatives start with the identifier
\* (the same for formats whose optional "/identifier" line is the second line: 50F)
SecondLineSlash(s) == \E i \in 1..(Len(s) - 1) : s[i] = "\n" /\ s[i + 1] = "/" /\ \A j \in 1..(i - 1) : s[j] # "\n"
IdLineSecond(fmt) == Len(fmt) >= 3 /\ fmt[2].k = "nl" /\ fmt[3].k = "opt" /\ fmt[3].body[1].k = "lit" /\ fmt[3].body[1].ch = "/"
EffFmt(fmt, s) == IF IdLineSecond(fmt) /\ SecondLineSlash(s) THEN SubSeq(fmt, 1, 2) \o fmt[3].body \o SubSeq(fmt, 4, Len(fmt))
                  ELSE IF Len(s) = 0 \/ s[1] # "/" THEN fmt
                  ELSE IF IdLineFirst(fmt) THEN fmt[1].body \o Tail(fmt)
                  ELSE IF IdAlts(fmt) THEN <<[fmt[1] EXCEPT !.alts = SubSeq(@, 1, fmt[1].idn)]>> \o Tail(fmt)
                  ELSE fmt
\* side conditions the format notation does not carry.  "idx<=tot" (28D, 5n/5n): both numbers are positive and the
\* index does not exceed the total
RECURSIVE NumVal(_, _, _)
NumVal(s, a, b) == IF a > b THEN 0 ELSE NumVal(s, a, b - 1) * 10 + DigitVal(s[b])
SlashPos(s) == CHOOSE i \in 1..Len(s) : s[i] = "/"
Side(f, s) == CASE f.side = "idx<=tot" -> LET q == SlashPos(s)
                                              i == NumVal(s, 1, q - 1)
                                              t == NumVal(s, q + 1, Len(s))
                                          IN i >= 1 /\ t >= 1 /\ i <= t
                [] OTHER -> TRUE
InLanguage(f, s) == /\ (Len(s) + 1) \in MSeq(s, EffFmt(f.fmt, s), 1, {1})
                    /\ (f.slash => NoSlashEdge(s))
                    /\ Side(f, s)

(* ------------------------------- generator ------------------------------- *)
Pattern(cls) == CASE cls = "n" -> <<"1", "2", "3", "4", "5", "6", "7", "8", "9", "0">>
                  [] cls = "a" -> <<"A", "B", "C", "D", "E", "F", "G", "H">>
                  [] cls = "c" -> <<"A", "1", "B", "2", "C", "3", "D", "4">>
                  [] cls = "x" -> <<"A", "b", "1", "C", "d", "2", "E", "3">>
Run(cls, n) == [i \in 1..n |-> Pattern(cls)[((i - 1) % Len(Pattern(cls))) + 1]]
\* "<MB>" / "<AD>" stand for a multi-byte letter and a non-ASCII digit (concretised by the harness;
\* TLC's output is not UTF-8 safe)
Foreign(cls) == CASE cls = "n" -> {"A", " ", "<AD>"}
                  [] cls = "a" -> {"1", "a", "~"}
                  [] cls = "c" -> {"a", "~", "<MB>"}
                  [] cls = "x" -> {"~", "<MB>"}
TypLen(c) == IF c.max <= 6 THEN c.max ELSE IF c.min > 6 THEN c.min ELSE 6
WithFirst(s, ch) == IF s = <<>> THEN <<ch>> ELSE [s EXCEPT ![1] = ch]
WithLast(s, ch)  == IF s = <<>> THEN <<ch>> ELSE [s EXCEPT ![Len(s)] = ch]
Mid(s) == (Len(s) + 1) \div 2

SemTyp(name) ==
  CASE name = "DATE" -> <<"2", "4", "0", "7", "1", "9">> [] name = "TIME" -> <<"1", "2", "3", "0">>
    [] name = "OFFS" -> <<"0", "1", "0", "0">> [] name = "SIGN" -> <<"+">> [] name = "DC" -> <<"C">>
    [] name = "CUR" -> <<"U", "S", "D">> [] name = "BIC" -> <<"D", "E", "U", "T", "D", "E", "F", "F">>
    [] name = "AMT" -> <<"1", "2", "3", "4", ",", "5", "6">>
    [] name = "AMT0" -> <<"1", "2", ",", "5", "6">>      \* an amount / rate that may be zero
    [] name = "RATE" -> <<"1", "2", "3", "4", ",", "5", "6">>   \* field 36: a rate within its documented plausibility
                                                               \* range (no length-boundary variants: they leave it)
SemVar(name) ==     \* ordered, so that a variant can be named by its index
  CASE name = "DATE" -> << <<"2", "4", "1", "3", "0", "1">>, <<"2", "3", "0", "2", "2", "9">>, <<"2", "4", "0", "2", "2", "9">>,
                           <<"2", "4", "0", "7", "1">>, <<"2", "4", "0", "7", "1", "A">>, <<"2", "4", "0", "7", "0", "0">>,
                           \* both sides of the century window (valid dates: 2049-12-31, 1950-01-01)
                           <<"4", "9", "1", "2", "3", "1">>, <<"5", "0", "0", "1", "0", "1">> >>
    [] name = "TIME" -> << <<"2", "5", "0", "0">>, <<"1", "2", "6", "0">>, <<"1", "2", "3">>, <<"2", "3", "5", "9">> >>
    [] name = "OFFS" -> << <<"2", "5", "6", "0">>, <<"0", "1", "6", "0">>, <<"0", "1", "0">>, <<"1", "3", "0", "0">> >>
    [] name = "SIGN" -> << <<"-">>, <<"*">>, <<>> >>
    [] name = "DC"   -> << <<"D">>, <<"X">>, <<"c">> >>
    [] name = "CUR"  -> << <<"u", "s", "d">>, <<"U", "S">>, <<"U", "S", "1">>, <<"E", "U", "R">> >>
    [] name = "BIC"  -> << <<"D", "E", "U", "T", "D", "E", "F", "F", "X", "X", "X">>,
                           <<"D", "E", "U", "T", "D", "E", "F">>, <<"D", "E", "U", "T", "D", "E", "F", "F", "X">>,
                           <<"D", "E", "U", "T", "D", "E", "F", "F", "X", "X">>,
                           <<"D", "E", "U", "T", "D", "E", "F", "F", "X", "X", "X", "X">>,
                           <<"d", "e", "u", "t", "d", "e", "f", "f">>, <<"D", "E", "U", "1", "D", "E", "F", "F">>,
                           <<"D", "E", "U", "T", "D", "E", "2", "A">>,
                           \* the branch code (positions 9-11) has its own class test in many implementations
                           <<"D", "E", "U", "T", "D", "E", "F", "F", "x", "x", "x">>,
                           <<"D", "E", "U", "T", "D", "E", "F", "F", "X", "X", "x">>,
                           <<"D", "E", "U", "T", "D", "E", "F", "F", "X", "5", "<MB>">>,
                           <<"D", "E", "U", "T", "D", "E", "F", "F", "1", "2", "3">>,
                           <<"D", "E", "U", "T", "D", "E", "F", "f">> >>
    [] name = "AMT"  -> << <<"1", ",">>, <<"a", "b", "c">>, <<>>, <<",", "5">>, <<"1", ",", "2", ",", "3">> >>
    [] name = "RATE" -> << <<"1", ",">>, <<"a", "b", "c">>, <<>>, <<",", "5">>, <<"1", ",", "2", ",", "3">> >>
    [] name = "AMT0" -> << <<"1", ",">>, <<"a", "b", "c">>, <<>>, <<"0", ",">>, <<"0", ",", "0", "0">>, <<"0", ",", "5">>,
                           <<",", "5">> >>

RECURSIVE Typ(_), TypSeq(_, _), Vars(_), GenSeq(_, _, _), VarsSeq(_, _)
TypSeq(cs, k) == IF k > Len(cs) THEN <<>> ELSE Typ(cs[k]) \o TypSeq(cs, k + 1)
Typ(c) ==
  CASE c.k = "cls"   -> Run(c.cls, TypLen(c))
    [] c.k = "lit"   -> <<c.ch>>
    [] c.k = "nl"    -> <<"\n">>
    [] c.k = "opt"   -> TypSeq(c.body, 1)
    [] c.k = "alt"   -> TypSeq(c.alts[1], 1)
    [] c.k = "sem"   -> SemTyp(c.cls)
    [] c.k = "code"  -> CHOOSE w \in c.set : TRUE
    [] c.k = "lines" -> IF c.max >= 2 /\ c.cls # "single"
                        THEN TypSeq(c.body, 1) \o <<"\n">> \o TypSeq(c.body, 1) ELSE TypSeq(c.body, 1)

(* A variant is a record [l |-> label, s |-> characters]; the label names the component
   (by position) and the deviation, and is what violation signatures are built from.      *)
V(l, str) == [l |-> l, s |-> str]
Pre(prefix, vs) == {V(prefix \o v.l, v.s) : v \in vs}

(* contents of a component sequence that deviate from typical in exactly one component *)
VarsSeq(cs, k) ==
  IF k > Len(cs) THEN {}
  ELSE {V(ToString(k) \o "." \o v.l, v.s \o TypSeq(cs, k + 1)) : v \in Vars(cs[k])}
       \cup {V(r.l, Typ(cs[k]) \o r.s) : r \in VarsSeq(cs, k + 1)}

NLines(c, n, first) ==   \* n lines: `first` then n-1 typical lines
  LET RECURSIVE Rest(_)
      Rest(m) == IF m = 0 THEN <<>> ELSE <<"\n">> \o TypSeq(c.body, 1) \o Rest(m - 1)
  IN first \o Rest(n - 1)

Vars(c) ==
  CASE c.k = "cls" ->
         LET t == Run(c.cls, TypLen(c)) IN
           {V("min", Run(c.cls, c.min)), V("max", Run(c.cls, c.max)), V("max+1", Run(c.cls, c.max + 1))}
           \cup (IF c.min >= 1 THEN {V("min-1", Run(c.cls, c.min - 1))} ELSE {})
           \cup {V("first=" \o ch, WithFirst(t, ch)) : ch \in Foreign(c.cls)}
           \cup {V("last=" \o ch, WithLast(t, ch)) : ch \in Foreign(c.cls)}
           \* a number one digit too long whose value is small (leading zeros): a check of the value instead of the text
           \cup (IF c.cls = "n" /\ c.max >= 2
                 THEN {V("max+1.lead0", [i \in 1..(c.max + 1) |-> IF i <= c.max THEN "0" ELSE "7"])} ELSE {})
           \cup (IF c.cls = "x" /\ Len(t) >= 3
                 THEN {V("mid=" \o ch, [t EXCEPT ![Mid(t)] = ch]) : ch \in {" ", ":", "/", ","}} ELSE {})
    [] c.k = "lit"   -> {V("lit-missing", <<>>), V("lit-wrong", <<"X">>), V("lit-doubled", <<c.ch, c.ch>>)}
    [] c.k = "nl"    -> {V("nl-missing", <<>>), V("nl-space", <<" ">>), V("nl-doubled", <<"\n", "\n">>),
                         V("nl-crlf", <<"\r", "\n">>), V("nl-crcrlf", <<"\r", "\r", "\n">>)}
    [] c.k = "opt"   -> {V("absent", <<>>)} \cup Pre("opt.", VarsSeq(c.body, 1))
    [] c.k = "alt"   -> {V("alt" \o ToString(a), TypSeq(c.alts[a], 1)) : a \in 2..Len(c.alts)}
                        \cup UNION {Pre("alt" \o ToString(a) \o ".", VarsSeq(c.alts[a], 1)) : a \in 1..Len(c.alts)}
    [] c.k = "sem"   -> {V(c.cls \o ToString(i), SemVar(c.cls)[i]) : i \in 1..Len(SemVar(c.cls))}
                        \* an amount / rate as long as its component allows, and one character longer
                        \cup (IF c.cls \in {"AMT", "AMT0"}
                              THEN {V(c.cls \o "-max", Run("n", c.max - 1) \o <<",">>),
                                    V(c.cls \o "-max+1", Run("n", c.max) \o <<",">>)} ELSE {})
                        \* an amount in canonical spelling (two decimals) that fills its component exactly and ends in 0
                        \cup (IF c.cls = "AMT" /\ c.max = 15 THEN {V("AMT-maxc", Run("n", c.max - 3) \o <<",", "3", "0">>)} ELSE {})
    [] c.k = "code"  -> {V("code-other", w) : w \in (c.set \ {Typ(c)})}
                        \cup {V("code-unknown", <<"Z", "Z", "Z", "Z">>), V("code-lower", WithLast(Typ(c), "z")),
                              V("code-long", Typ(c) \o <<"X">>)}
    [] c.k = "lines" ->
         LET t == TypSeq(c.body, 1) IN
           (IF c.cls = "single" THEN {}
            ELSE {V("1line", NLines(c, 1, t)), V("maxlines", NLines(c, c.max, t)), V("maxlines+1", NLines(c, c.max + 1, t))})
           \cup Pre("line1.", {V(v.l, NLines(c, (IF c.max >= 2 /\ c.cls # "single" THEN 2 ELSE 1), v.s)) : v \in VarsSeq(c.body, 1)})
           \cup (IF c.max >= 2 /\ c.cls # "single"
                 THEN {V("crlf-middle", t \o <<"\r", "\n">> \o t), V("crcrlf-middle", t \o <<"\r", "\r", "\n">> \o t)} ELSE {})
           \cup {V("trailing-nl", t \o <<"\n">>), V("blank-middle", t \o <<"\n", "\n">> \o t),
                 V("blank-first", <<"\n">> \o t), V("no-line", <<>>)}
           \* the LAST of the maximal number of lines at and beyond its own limits (a check that stops one
           \* line early, or looks at the first line only, shows here)
           \cup (IF c.max >= 2 /\ c.cls # "single" /\ Len(c.body) = 1 /\ c.body[1].k = "cls"
                 THEN LET b == c.body[1]
                          pre == NLines(c, c.max - 1, t) \o <<"\n">>
                      IN {V("lastline.max", pre \o Run(b.cls, b.max)),
                          V("lastline.max+1", pre \o Run(b.cls, b.max + 1)),
                          V("lastline.last=~", pre \o WithLast(Run(b.cls, TypLen(b)), "~"))}
                 ELSE {})

(* all contents with at most b deviating components.  Besides label and characters a content carries its PARTS: the
   characters each top-level component of the format contributed (<<>> for an absent optional one), which is what the
   parsed value has to expose component by component (C03)                                                        *)
VP(l, str, parts) == [l |-> l, s |-> str, p |-> parts]
GenSeq(cs, k, b) ==
  IF k > Len(cs) THEN {VP("", <<>>, <<>>)}
  ELSE {VP(r.l, Typ(cs[k]) \o r.s, <<Typ(cs[k])>> \o r.p) : r \in GenSeq(cs, k + 1, b)}
       \cup (IF b > 0 THEN {VP(ToString(k) \o "." \o v.l \o (IF r.l = "" THEN "" ELSE " & " \o r.l), v.s \o r.s, <<v.s>> \o r.p) :
                                v \in Vars(cs[k]), r \in GenSeq(cs, k + 1, b - 1)} ELSE {})
NoParts(vs) == {VP(v.l, v.s, <<>>) : v \in vs}

Trailing(s) == {V("end+X", s \o <<"X">>), V("end+space", s \o <<" ">>),
                V("end+line", s \o <<"\n", "E", "X", "T", "R", "A">>), V("end+nl", s \o <<"\n">>)}

(* the choice a format opens with (optional identifier line absent, another alternative) taken together with
   what makes the rest longest: the line-count variants of every later component and the trailing additions.
   Two deviations, but the pair a parser that counts lines before it has told the identifier line from the
   text lines gets wrong -- so it is drawn at every budget.                                                  *)
Choice(c) == CASE c.k = "opt" -> {V("absent", <<>>)}
               [] c.k = "alt" -> {V("alt" \o ToString(a), TypSeq(c.alts[a], 1)) : a \in 2..Len(c.alts)}
               [] OTHER -> {}
LineVars(c) == IF c.k = "lines" /\ c.cls # "single"
               THEN LET t == TypSeq(c.body, 1) IN {V("maxlines", NLines(c, c.max, t)), V("maxlines+1", NLines(c, c.max + 1, t))}
               ELSE {}
RECURSIVE TypRange(_, _, _)
TypRange(cs, a, b) == IF a > b THEN <<>> ELSE Typ(cs[a]) \o TypRange(cs, a + 1, b)
ChoicePairs(f) ==
  LET cs == f.fmt IN
    UNION {   {V("1." \o ch.l \o " & " \o tr.l, tr.s) : tr \in Trailing(ch.s \o TypSeq(cs, 2))}
         \cup UNION {{V("1." \o ch.l \o " & " \o ToString(k) \o "." \o lv.l, ch.s \o TypRange(cs, 2, k - 1) \o lv.s \o TypSeq(cs, k + 1)) :
                        lv \in LineVars(cs[k])} : k \in 2..Len(cs)}
          : ch \in Choice(cs[1])}
\* ... and with a first text line that no heuristic can take for an identifier (letters and a blank: a name).  These
\* carry their parts, so that the component check sees where the line was filed.
PlainName == <<"J", "O", "H", "N", " ", "D", "O", "E">>
NamePairs(f) ==
  LET cs == f.fmt IN
    IF Len(cs) >= 2 /\ cs[2].k = "lines" /\ cs[2].cls # "single" /\ cs[2].max >= 2 /\ Len(cs[2].body) = 1 /\ cs[2].body[1].k = "cls"
       /\ cs[2].body[1].cls = "x"
    THEN {VP("1." \o ch.l \o " & 2.plainname", ch.s \o PlainName \o <<"\n">> \o TypSeq(cs[2].body, 1) \o TypSeq(cs, 3),
             <<ch.s, PlainName \o <<"\n">> \o TypSeq(cs[2].body, 1)>> \o [j \in 1..(Len(cs) - 2) |-> Typ(cs[j + 2])]) : ch \in Choice(cs[1])}
    ELSE {}

Contents(f) == GenSeq(f.fmt, 1, Budget) \cup NoParts(Trailing(TypSeq(f.fmt, 1))) \cup NoParts(ChoicePairs(f)) \cup NamePairs(f)

(* -------------------------------- formats -------------------------------- *)
\* party identifier as every field documents it: [/1!a][/34x].  (The helper field_utils::parse_party_identifier also
\* names a form /2!a/34x; within 34 characters that is a /34x -- a slash is an ordinary character of the x set -- and
\* beyond 34 characters no field's Format line admits it.)
PI       == Alt(<< <<Lit("/"), Cl("a", 1, 1), Lit("/"), Cl("x", 1, 34)>>, <<Lit("/"), Cl("x", 1, 34)>> >>)
PILine   == Opt(<<PI, NL>>)
Acct     == Opt(<<Lit("/"), Cl("x", 1, 34), NL>>)
Name4    == Lines(1, 4, <<Cl("x", 1, 35)>>)
\* numbered lines: the numbering discipline (1/ 2/ 3/ in order) is a semantic rule outside the
\* format notation, so the generator keeps to a single line 1/...  (cls = "single")
Numbered == [Lines(1, 4, <<Lit("1"), Lit("/"), Cl("x", 1, 33)>>) EXCEPT !.cls = "single"]
Balance  == <<Sem("DC", 1), Sem("DATE", 6), Sem("CUR", 3), Sem("AMT", 15)>>
\* options B: [/1!a][/34x] CRLF [35x] -- identifier and location, identifier alone, location alone
\* (both parts are optional in the notation, and the library documents and unit-tests the field without either as
\* accepted: the fourth alternative)
PartyLoc == <<AltId(<< <<PI, NL, Cl("x", 1, 35)>>, <<PI>>, <<Cl("x", 1, 35)>>, <<>> >>, 2)>>

\* "idline": the format starts with an optional account line [/34x] on a line of its own
First(fmt) == IF fmt[1].k = "opt" /\ Len(fmt[1].body) = 3 /\ fmt[1].body[1].k = "lit" /\ fmt[1].body[3].k = "nl"
              THEN "idline" ELSE "none"
\* number of the line (1 or 2) that is an optional "/identifier" line of its own, 0 if the format has none:
\* when that line starts with "/" the parsed value must show it as identifier, not among the text lines
SlashLine(c) == c.k = "opt" /\ Len(c.body) = 3 /\ c.body[1].k = "lit" /\ c.body[1].ch = "/" /\ c.body[3].k = "nl"
IdLine(fmt) == IF SlashLine(fmt[1]) THEN 1
               ELSE IF Len(fmt) >= 3 /\ fmt[2].k = "nl" /\ SlashLine(fmt[3]) THEN 2 ELSE 0
F(tag, fmt)  == [tag |-> tag, fmt |-> fmt, slash |-> FALSE, amt |-> FALSE, side |-> "none"]
FS(tag, fmt) == [tag |-> tag, fmt |-> fmt, slash |-> TRUE,  amt |-> FALSE, side |-> "none"]
FA(tag, fmt) == [tag |-> tag, fmt |-> fmt, slash |-> FALSE, amt |-> TRUE,  side |-> "none"]

Codes13C == {<<"S", "N", "D", "T", "I", "M", "E">>, <<"C", "L", "S", "T", "I", "M", "E">>, <<"R", "N", "C", "T", "I", "M", "E">>,
             <<"R", "E", "J", "T", "I", "M", "E">>, <<"C", "U", "T", "T", "I", "M", "E">>}
Codes23B == {<<"C", "R", "E", "D">>, <<"C", "R", "T", "S">>, <<"S", "P", "A", "Y">>, <<"S", "P", "R", "I">>, <<"S", "S", "T", "D">>}
Codes61DC == {<<"C">>, <<"D">>, <<"R", "C">>, <<"R", "D">>}
Codes71A == {<<"B", "E", "N">>, <<"O", "U", "R">>, <<"S", "H", "A">>}

Formats == {
  F("11",  <<Cl("n", 3, 3), Sem("DATE", 6)>>),
  \* documented 3!n6!n[4!n][6!n]; a sequence number without session number cannot be told from a
  \* session number with two stray digits, so the sequence is nested in the session
  F("11R", <<Cl("n", 3, 3), Sem("DATE", 6), Opt(<<Cl("n", 4, 4), Opt(<<Cl("n", 6, 6)>>)>>)>>),
  F("11S", <<Cl("n", 3, 3), Sem("DATE", 6), Opt(<<Cl("n", 4, 4), Opt(<<Cl("n", 6, 6)>>)>>)>>),
  F("12",  <<Cl("n", 3, 3)>>),
  F("13C", <<Lit("/"), Code(Codes13C), Lit("/"), Sem("TIME", 4), Sem("SIGN", 1), Sem("OFFS", 4)>>),
  F("13D", <<Sem("DATE", 6), Sem("TIME", 4), Sem("SIGN", 1), Sem("OFFS", 4)>>),
  FS("20", <<Cl("x", 1, 16)>>),
  FS("21", <<Cl("x", 1, 16)>>),
  F("21C", <<Cl("x", 1, 35)>>), F("21D", <<Cl("x", 1, 35)>>), F("21E", <<Cl("x", 1, 35)>>),
  F("21F", <<Cl("x", 1, 16)>>), F("21R", <<Cl("x", 1, 16)>>),
  F("23E", <<Cl("a", 4, 4), Opt(<<Lit("/"), Cl("x", 1, 35)>>)>>),   \* documented 4!c; every defined code is 4 letters
  F("23B", <<Code(Codes23B)>>),
  F("25",  <<Cl("x", 1, 35)>>),
  F("25P", <<Cl("x", 1, 35), NL, Sem("BIC", 11)>>),
  F("25A", <<Lit("/"), Cl("x", 1, 34)>>),
  F("26T", <<Cl("c", 3, 3)>>),
  F("28",  <<Cl("n", 1, 5), Opt(<<Lit("/"), Cl("n", 1, 2)>>)>>),
  F("28C", <<Cl("n", 1, 5), Opt(<<Lit("/"), Cl("n", 1, 5)>>)>>),
  \* message index / total: the typical content is 12345/12345; a shorter total with the typical index is
  \* out of the language by the side condition, a shorter index is in it
  [F("28D", <<Cl("n", 1, 5), Lit("/"), Cl("n", 1, 5)>>) EXCEPT !.side = "idx<=tot"],
  F("30",  <<Sem("DATE", 6)>>),
  FA("32A", <<Sem("DATE", 6), Sem("CUR", 3), Sem("AMT", 15)>>),
  FA("32B", <<Sem("CUR", 3), Sem("AMT", 15)>>),
  FA("32C", <<Sem("DATE", 6), Sem("CUR", 3), Sem("AMT", 15)>>),
  FA("32D", <<Sem("DATE", 6), Sem("CUR", 3), Sem("AMT", 15)>>),
  FA("33B", <<Sem("CUR", 3), Sem("AMT", 15)>>),
  FA("34F", <<Sem("CUR", 3), Opt(<<Sem("DC", 1)>>), Sem("AMT", 15)>>),
  F("50",  <<Name4>>),
  F("50A", <<Acct, Numbered>>),
  F("50C", <<Sem("BIC", 11)>>),
  \* the library's own 50F: account CRLF [/party identifier CRLF] [1-4 name and address lines CRLF] BIC
  F("50F", <<Cl("x", 1, 35), NL, Opt(<<Lit("/"), Cl("x", 1, 34), NL>>), Opt(<<Lines(1, 4, <<Cl("x", 1, 35)>>), NL>>),
             Sem("BIC", 11)>>),
  F("50G", <<Lit("/"), Cl("x", 1, 34), NL, Sem("BIC", 11)>>),
  F("50H", <<Lit("/"), Cl("x", 1, 34), NL, Name4>>),
  F("50K", <<Acct, Name4>>),
  F("50L", <<Cl("x", 1, 35)>>),
  F("51A", <<PILine, Sem("BIC", 11)>>),
  F("52A", <<PILine, Sem("BIC", 11)>>), F("53A", <<PILine, Sem("BIC", 11)>>), F("54A", <<PILine, Sem("BIC", 11)>>),
  F("55A", <<PILine, Sem("BIC", 11)>>), F("56A", <<PILine, Sem("BIC", 11)>>), F("57A", <<PILine, Sem("BIC", 11)>>),
  F("58A", <<PILine, Sem("BIC", 11)>>),
  F("52B", PartyLoc), F("53B", PartyLoc), F("54B", PartyLoc), F("55B", PartyLoc), F("57B", PartyLoc),
  F("52C", <<Lit("/"), Cl("x", 1, 34)>>), F("56C", <<Lit("/"), Cl("x", 1, 34)>>), F("57C", <<Lit("/"), Cl("x", 1, 34)>>),
  F("52D", <<PILine, Name4>>), F("53D", <<PILine, Name4>>), F("54D", <<PILine, Name4>>), F("55D", <<PILine, Name4>>),
  F("56D", <<PILine, Name4>>), F("57D", <<PILine, Name4>>), F("58D", <<PILine, Name4>>),
  F("59",  <<Acct, Name4>>),
  F("59A", <<Acct, Sem("BIC", 11)>>),
  F("59F", <<Acct, Numbered>>),
  FA("60F", Balance), FA("60M", Balance), FA("62F", Balance), FA("62M", Balance), FA("64", Balance), FA("65", Balance),
  \* 6!n[4!n]2a[1!a]15d1!a3!c[16x][//16x][CRLF 34x]  (statement line; the library documents the first reference as optional)
  FA("61", <<Sem("DATE", 6), Opt(<<Cl("n", 4, 4)>>), Code(Codes61DC), Opt(<<Cl("a", 1, 1)>>), Sem("AMT", 15),
             Cl("a", 1, 1), Cl("c", 3, 3), Opt(<<[Cl("x", 1, 16) EXCEPT !.ch = "nodbl"]>>), Opt(<<Lit("/"), Lit("/"), Cl("x", 1, 16)>>),
             Opt(<<NL, Cl("x", 1, 34)>>)>>),
  F("70",  <<Lines(1, 4, <<Cl("x", 1, 35)>>)>>),
  F("71A", <<Code(Codes71A)>>),
  F("71B", <<Lines(1, 6, <<Cl("x", 1, 35)>>)>>),
  FA("71F", <<Sem("CUR", 3), Sem("AMT", 15)>>), FA("71G", <<Sem("CUR", 3), Sem("AMT", 15)>>),
  F("72",  <<Lines(1, 6, <<Cl("x", 1, 35)>>)>>),
  F("75",  <<Lines(1, 6, <<Cl("x", 1, 35)>>)>>),
  F("76",  <<Lines(1, 6, <<Cl("x", 1, 35)>>)>>),
  F("77A", <<Lines(1, 20, <<Cl("x", 1, 35)>>)>>),
  F("77B", <<Lines(1, 3, <<Cl("x", 1, 35)>>)>>),
  F("79",  <<Lines(1, 35, <<Cl("x", 1, 50)>>)>>),
  F("86",  <<Lines(1, 6, <<Cl("x", 1, 65)>>)>>),
  FA("19",  <<Sem("AMT", 17)>>),
  FA("36",  <<Sem("RATE", 12)>>),
  FA("37H", <<Sem("DC", 1), Opt(<<Lit("N")>>), Sem("AMT0", 12)>>),
  FA("90C", <<Cl("n", 1, 5), Sem("CUR", 3), Sem("AMT", 15)>>),
  FA("90D", <<Cl("n", 1, 5), Sem("CUR", 3), Sem("AMT", 15)>>)
}

(* field types with formats the algebra does not express faithfully (listed as not covered):
   23 (the documented 3!a[2!n]11x and the documented function codes do not fit together), 77T (9000z) *)

VARIABLES fld, content
vars == <<fld, content>>
Init == /\ fld \in {f \in Formats : f.tag \in FieldsUnderTest}
        /\ content \in Contents(fld)
Next == UNCHANGED vars
Spec == Init /\ [][Next]_vars

(* oracle sanity: the typical content of every format is in its language *)
TypicalAccepted == InLanguage(fld, TypSeq(fld.fmt, 1))
(* nothing in the language is empty (options B aside, whose notation admits the empty field) *)
NonEmpty == (InLanguage(fld, content.s) /\ fld.fmt # PartyLoc) => Len(content.s) > 0

Emit == EmitCases => PrintT(ToJson([tag |-> fld.tag, l |-> content.l, s |-> content.s, p |-> content.p,
                                    accept |-> InLanguage(fld, content.s), amt |-> fld.amt, first |-> First(fld.fmt),
                                    idl |-> IdLine(fld.fmt)]))
=============================================================================
