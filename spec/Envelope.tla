------------------------------ MODULE Envelope ------------------------------
(***************************************************************************)
(* The message envelope: blocks 1-5 and their headers.                     *)
(*                                                                         *)
(* Part 1 -- structural scanner.  A raw message is a sequence of symbols   *)
(*   "{" "}"  braces,  "c" any other character,  "T" the text-block        *)
(*   terminator (a line consisting of "-" directly followed by "}").       *)
(* Scan(msg) cuts it into top-level blocks purely by brace depth (block 4, *)
(* the text block, is closed by "T" only).  BlocksIndependentOfValues:     *)
(* replacing "c" symbols by other non-brace characters never moves a       *)
(* boundary (true by construction: Scan looks at braces and "T" only).     *)
(*                                                                         *)
(* Part 2 -- header shapes.  An envelope case is a record of abstract      *)
(* choices (documented components present / absent, near-miss faults);     *)
(* Expect says whether the documented format admits it.  The harness       *)
(* concretises each case and compares the library's verdict and, for       *)
(* admitted cases, the tags and values found in the re-serialised text.    *)
(***************************************************************************)
EXTENDS Naturals, Sequences, FiniteSets, TLC, Json

CONSTANTS MaxTags, EmitCases

(* ----------------------------- part 1: scanner --------------------------- *)
ScanInit == [depth |-> 0, blocks |-> <<>>, cur |-> <<>>, intext |-> FALSE]

ScanSym(st, s) ==
  IF st.intext
  THEN IF s = "T" THEN [st EXCEPT !.intext = FALSE, !.depth = 0, !.blocks = Append(@, st.cur), !.cur = <<>>]
       ELSE [st EXCEPT !.cur = Append(@, s)]
  ELSE CASE s = "{" -> IF st.depth = 0 THEN [st EXCEPT !.depth = 1, !.cur = <<>>]
                       ELSE [st EXCEPT !.depth = @ + 1, !.cur = Append(@, s)]
         [] s = "}" -> IF st.depth = 1 THEN [st EXCEPT !.depth = 0, !.blocks = Append(@, st.cur), !.cur = <<>>]
                       ELSE IF st.depth = 0 THEN st
                       ELSE [st EXCEPT !.depth = @ - 1, !.cur = Append(@, s)]
         [] s = "4" -> [st EXCEPT !.intext = (st.depth = 1 /\ st.cur = <<>>), !.cur = Append(@, s)]
         [] OTHER   -> IF st.depth = 0 THEN st ELSE [st EXCEPT !.cur = Append(@, s)]

RECURSIVE ScanFrom(_, _, _)
ScanFrom(st, msg, i) == IF i > Len(msg) THEN st ELSE ScanFrom(ScanSym(st, msg[i]), msg, i + 1)
Scan(msg) == ScanFrom(ScanInit, msg, 1)

(* ----------------------------- part 2: shapes ---------------------------- *)
B3Tags == {"103", "113", "108", "119", "423", "106", "424", "111", "121", "115", "165", "433", "434"}
B5Tags == {"CHK", "TNG", "PDE", "DLM", "MRF", "PDM", "SYS", "MAC"}
B2Shapes == {"I_P", "I_PM", "I_PMOOO", "O_P", "O"}
Faults == {"none",
           "b1_short", "b1_long", "b1_letter_in_session", "b1_missing",
           "b2_bad_direction", "b2_I_short", "b2_I_partial_obsolescence", "b2_I_trailing", "b2_letter_in_type",
           "b2_O_short", "b2_O_trailing", "b2_missing",
           "b3_unclosed", "b4_unterminated",
           \* structured block-3 values of the wrong shape: code word followed by something other than "/text", a code
           \* word cut short, a date-time cut short -- rejected, not read in part
           "b3_433_no_slash", "b3_165_short", "b3_423_short",
           "val_dash_brace_midline", "val_dashline_in_narrative", "mur_with_colon_digit"}
(* faults after which the documented format no longer admits the message *)
Rejecting == Faults \ {"none", "val_dashline_in_narrative", "mur_with_colon_digit", "val_dash_brace_midline"}

\* addr: the addresses in blocks 1 and 2 carry the default branch XXX, or a real branch code
Addrs == {"xxx", "branch"}
\* tagval: the shape of the structured block-3 values (165 / 433 / 434: code word with free text; 423: date-time):
\* long = code word, slash and text with further slashes (hundredths present); code = the code word alone (no
\* hundredths); short = code word, slash and a single character
TagVals == {"long", "code", "short"}
Structured == {"165", "433", "434", "423"}
VARIABLES b2, b3, b5, fault, addr, tagval
vars == <<b2, b3, b5, fault, addr, tagval>>

\* a block is absent (empty tag set) or present with 1..MaxTags tags or with all tags
Small(S) == {x \in SUBSET S : Cardinality(x) <= MaxTags} \cup {S}

Init ==
  /\ b2 \in B2Shapes
  /\ b3 \in Small(B3Tags)
  /\ b5 \in Small(B5Tags)
  /\ fault \in Faults
  /\ addr \in Addrs
  /\ tagval \in TagVals
  /\ (tagval # "long") => (fault = "none" /\ addr = "xxx" /\ b3 \cap Structured # {} /\ b5 = {} /\ b2 \in {"I_P", "O_P"})
  /\ (addr = "branch") => (fault = "none" /\ Cardinality(b3) <= 1 /\ Cardinality(b5) <= 1)
  /\ fault # "none" => (b3 \in {{}, {"108"}, {"433"}, {"165"}, {"423"}} /\ b5 \in {{}, {"CHK"}})
  /\ (b3 \in {{"433"}, {"165"}, {"423"}} /\ fault # "none") => fault \in {"b3_433_no_slash", "b3_165_short", "b3_423_short"}
  /\ (fault \in {"b2_I_short", "b2_I_partial_obsolescence", "b2_I_trailing"}) => b2 \in {"I_P", "I_PM", "I_PMOOO"}
  /\ (fault \in {"b2_O_short", "b2_O_trailing"}) => b2 \in {"O_P", "O"}
  /\ (fault = "b3_unclosed" \/ fault = "mur_with_colon_digit") => b3 = {"108"}
  /\ (fault = "b3_433_no_slash") => b3 = {"433"}
  /\ (fault = "b3_165_short") => b3 = {"165"}
  /\ (fault = "b3_423_short") => b3 = {"423"}
Next == UNCHANGED vars
Spec == Init /\ [][Next]_vars

Expect == IF fault \in Rejecting THEN "reject" ELSE "accept"

(* scanner lemmas on small symbol strings *)
Sym == {"{", "}", "c", "4", "T"}
ScanTotal == \A m \in UNION {[1..n -> Sym] : n \in 0..5} : Scan(m).depth \in 0..5
ValuesDoNotMoveBoundaries ==
  \A m \in UNION {[1..n -> Sym] : n \in 0..5} :
     LET m2 == [i \in 1..Len(m) |-> IF m[i] = "c" THEN "x" ELSE m[i]] IN
       Len(Scan(m).blocks) = Len(Scan(m2).blocks)

Case == [b2 |-> b2, b3 |-> b3, b5 |-> b5, fault |-> fault, addr |-> addr, tagval |-> tagval, expect |-> Expect]
Emit == EmitCases => PrintT(ToJson(Case))
=============================================================================
