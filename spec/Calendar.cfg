SPECIFICATION Spec
CONSTANTS
  EmitCases = TRUE
INVARIANTS PivotWindowInjective WindowIs1950To2049 YearLength DigitsDetermineDate ValidTimes Emit
CHECK_DEADLOCK FALSE
