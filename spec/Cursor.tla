------------------------------- MODULE Cursor -------------------------------
(***************************************************************************)
(* The cursor machine behind every typed parser: `MessageParser` over the  *)
(* token sequence of a block 4.  One action per primitive (= one hook      *)
(* event, emitted at the primitive's return).                              *)
(*                                                                         *)
(* Reference actions describe what the documented contract of a primitive  *)
(* allows: a field is taken only AT the cursor, whole, once.  Named        *)
(* deviation actions describe what an implementation could do instead      *)
(* (search ahead, match a marker inside another field's content, consume   *)
(* more or less than one field, ignore an option letter, keep going after  *)
(* a content error).  A deviation is always explainable -- it is recorded  *)
(* in `dev` -- and the properties say which runs may contain one:          *)
(*      accepted runs: none  (C01 NoSilentLoss)                            *)
(*      rejected runs: any                                                 *)
(*                                                                         *)
(* Abstract state                                                          *)
(*   toks    Seq of full tags of the input's fields (reference tokeniser)  *)
(*   fams    Seq of their base tags                                        *)
(*   pos     index of the field at the cursor (Len+1 = end)                *)
(*   seen    tags extracted while duplicate detection was on              *)
(*   dupok   duplicate detection off?                                      *)
(*   taken   indices of fields extracted so far, in order                  *)
(*   failed  indices whose content the field parser refused               *)
(*   last    index extracted by the latest Extract (0 = none)             *)
(*   dev     set of deviation names taken so far                           *)
(***************************************************************************)
EXTENDS Integers, Sequences, FiniteSets

VARIABLES toks, fams, pos, seen, dupok, taken, failed, last, dev

cvars == <<toks, fams, pos, seen, dupok, taken, failed, last, dev>>

N == Len(toks)
AtEnd == pos > N
Cur == IF AtEnd THEN "" ELSE toks[pos]

CInit(ts, fs) ==
  /\ toks = ts /\ fams = fs /\ pos = 1 /\ seen = {} /\ dupok = FALSE
  /\ taken = <<>> /\ failed = {} /\ last = 0 /\ dev = {}

(* start of a new run over the token sequence ts *)
CReset(ts, fs) ==
  /\ toks' = ts /\ fams' = fs /\ pos' = 1 /\ seen' = {} /\ dupok' = FALSE
  /\ taken' = <<>> /\ failed' = {} /\ last' = 0 /\ dev' = {}

SetDuplicates(b) ==
  /\ dupok' = b
  /\ UNCHANGED <<toks, fams, pos, seen, taken, failed, last, dev>>

(* ---- Extract(tag): res = "found" ---------------------------------------- *)
(* at  : token index the implementation's cursor maps to (negative: strictly *)
(*       inside token -at)                                                   *)
(* hit : index of the token whose marker was matched (negative: the match   *)
(*       lies inside the content of token -hit)                             *)
(* to  : token index the cursor maps to afterwards                          *)
Take(i, to, d) ==
  /\ pos' = IF to > 0 THEN to ELSE pos
  /\ taken' = IF i > 0 THEN Append(taken, i) ELSE taken
  /\ last' = IF i > 0 THEN i ELSE 0
  /\ dev' = dev \cup d
  /\ UNCHANGED <<toks, fams, dupok, failed>>

ExtractFound(tag, optional, at, hit, to) ==
  /\ seen' = IF dupok THEN seen ELSE seen \cup {tag}
  /\ CASE at = pos /\ hit = pos /\ ~AtEnd /\ toks[pos] = tag /\ to = pos + 1 ->
            Take(pos, to, {})                                       \* reference
       [] at = pos /\ hit > pos /\ hit <= N /\ toks[hit] = tag /\ to = hit + 1 ->
            Take(hit, to, {"SkipAhead"})
       [] hit < 0 ->
            Take(0, to, {"MatchInsideContent"})
       [] OTHER ->
            Take(IF hit > 0 /\ hit <= N THEN hit ELSE 0, to, {"Irregular"})

ExtractNotFound(tag, optional, at) ==
  /\ dev' = dev \cup (IF at = pos /\ (AtEnd \/ toks[pos] # tag) THEN {}
                      ELSE IF at # pos THEN {"Irregular"} ELSE {"MissedAtCursor"})
  /\ last' = 0
  /\ UNCHANGED <<toks, fams, pos, seen, dupok, taken, failed>>

ExtractDuplicate(tag, optional, at) ==
  /\ dev' = dev \cup (IF ~dupok /\ tag \in seen /\ ~optional THEN {} ELSE {"Irregular"})
  /\ last' = 0
  /\ UNCHANGED <<toks, fams, pos, seen, dupok, taken, failed>>

(* ---- the field parser refused the content of the field just extracted ---- *)
ContentInvalid(tag) ==
  /\ failed' = IF last > 0 THEN failed \cup {last} ELSE failed
  /\ dev' = dev \cup (IF last > 0 /\ toks[last] = tag THEN {} ELSE {"Irregular"})
  /\ UNCHANGED <<toks, fams, pos, seen, dupok, taken, last>>

(* ---- look-ahead primitives (no state change; their ANSWER is constrained) - *)
VariantAnswer(base) ==
  IF ~AtEnd /\ fams[pos] = base THEN toks[pos] ELSE "none"

DetectVariant(base, at, res) ==
  /\ dev' = dev \cup (IF at = pos /\ res = VariantAnswer(base) THEN {}
                      ELSE IF at = pos /\ res = "none" THEN {"UnknownLetterIgnored"}
                      ELSE {"Irregular"})
  /\ UNCHANGED <<toks, fams, pos, seen, dupok, taken, failed, last>>

DetectField(tag, at, res) ==
  /\ dev' = dev \cup (IF at = pos /\ res = (~AtEnd /\ toks[pos] = tag) THEN {} ELSE {"Irregular"})
  /\ UNCHANGED <<toks, fams, pos, seen, dupok, taken, failed, last>>

IsComplete(at, res) ==
  /\ dev' = dev \cup (IF at = pos /\ res = AtEnd THEN {} ELSE {"Irregular"})
  /\ UNCHANGED <<toks, fams, pos, seen, dupok, taken, failed, last>>

(* ---- what the end of a run means ----------------------------------------- *)
Iota(n) == [i \in 1..n |-> i]

(* C01, cursor level: an accepted run extracted every field once, in order, *)
(* every content was parsed, and no deviation was needed to explain it      *)
CleanAccept == taken = Iota(N) /\ failed = {} /\ dev = {}

LossMechanisms ==
  dev \cup (IF failed # {} THEN {"ContinuedAfterInvalidContent"} ELSE {})
      \cup (IF taken # Iota(N) /\ dev = {} /\ failed = {}
            THEN (IF Len(taken) < N THEN {"IgnoredTrailingOrSkipped"} ELSE {"Reordered"})
            ELSE {})

(* reference-only behaviours keep the cursor glued to what was taken *)
RefConsumesPrefix == dev = {} => (taken = Iota(pos - 1))
=============================================================================
