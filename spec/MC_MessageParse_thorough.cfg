SPECIFICATION Spec
CONSTANTS
  TypesUnderTest <- AllTypes
  K = 1
  MaxMut = 1
  MutKinds <- AllMuts
  MutateAll = TRUE
  Modes <- BaseModes
  EmitCases = TRUE
INVARIANTS
  TypeOK
  TableOK
  UnmutatedAccepted
  OverCapRejected
  NoSilentLoss
  RejectNamesCulprit
  ForeignNeverConsumed
  Emit
CHECK_DEADLOCK FALSE
