SPECIFICATION Spec
CONSTANTS
  Tags = {"20", "23E", "32B"}
  Vals = {"a", "b"}
  MaxLen = 4
  MaxSeq = 2
INVARIANTS RoundTrip AbsentNotPlaceholder OrderPreserved
CHECK_DEADLOCK FALSE
