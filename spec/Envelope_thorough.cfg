SPECIFICATION Spec
CONSTANTS
  MaxTags = 2
  EmitCases = TRUE
INVARIANTS ScanTotal ValuesDoNotMoveBoundaries Emit
CHECK_DEADLOCK FALSE
