SPECIFICATION Spec
CONSTANTS
  Budget = 2
  FieldsUnderTest <- AllFields
  EmitCases = TRUE
INVARIANTS TypicalAccepted NonEmpty Emit
CHECK_DEADLOCK FALSE
