SPECIFICATION Spec
CONSTANTS
  IntDigits <- QuickInt
  FracDigits <- Frac
  EmitCases = TRUE
INVARIANTS TableDisjoint OnlyDecimals PrecisionRespected LengthRespected CanonIdempotent Emit
CHECK_DEADLOCK FALSE
