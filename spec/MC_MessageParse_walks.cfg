SPECIFICATION Spec
CONSTANTS
  TypesUnderTest <- AllTypes
  K = 1
  MaxMut = 0
  MutKinds <- QuickMuts
  MutateAll = FALSE
  Modes <- BaseModes
  EmitCases = TRUE
INVARIANTS
  TypeOK
  UnmutatedAccepted
  NoSilentLoss
  Emit
CHECK_DEADLOCK FALSE
