------------------------------- MODULE Pipeline -------------------------------
(***************************************************************************)
(* The scenario pipeline  generate -> publish -> validate -> parse  and    *)
(* its validation against traces recorded from the real plugin functions.  *)
(*                                                                         *)
(* One run per (scenario file, draw).  Stages happen in this order only;   *)
(* each hands its result to the next:                                      *)
(*   Generate   datafake draw of the scenario            -> generated JSON *)
(*   Publish    JSON -> MT text; its block 4 is projected onto field tags  *)
(*   Validate   network validation of the published text                   *)
(*   Parse      MT text -> JSON, compared exactly with the generated JSON  *)
(*                                                                         *)
(* C15: every run must be explained by the reference actions only:         *)
(*   PublishedInLanguage   the published tags are a walk of the reference  *)
(*                         layout of the type (Walker!Walk accepts)        *)
(*   ValidationEmpty       no network error                                *)
(*   ParsedEqualsGenerated exact equality (numbers as decimals, null =     *)
(*                         absent)                                         *)
(***************************************************************************)
EXTENDS Walker, Integers, TLC, Json, IOUtils

Rec == ndJsonDeserialize(IOEnv.TRACE)

VARIABLES l, run, stage, dev, results
vars == <<l, run, stage, dev, results>>

E == Rec[l]
IsEvent(name) == l <= Len(Rec) /\ E.e = name /\ l' = l + 1
ToSeq(sq) == [i \in 1..Len(sq) |-> sq[i]]

TraceInit == l = 1 /\ run = [id |-> -1, scenario |-> "", mt |-> ""] /\ stage = "idle" /\ dev = {} /\ results = <<>>

Begin ==
  /\ IsEvent("begin") /\ stage = "idle"
  /\ run' = [id |-> E.id, scenario |-> E.scenario, mt |-> E.mt] /\ stage' = "begun" /\ dev' = {}
  /\ UNCHANGED results

Generate ==
  /\ IsEvent("generate") /\ stage = "begun"
  /\ stage' = "generated"
  /\ dev' = IF E.ok THEN dev ELSE dev \cup {"GenerateFailed"}
  /\ UNCHANGED <<run, results>>

Publish ==
  /\ IsEvent("publish") /\ stage = "generated"
  /\ stage' = "published"
  /\ LET toks == [i \in 1..Len(E.toks) |-> [tag |-> E.toks[i], ok |-> TRUE]]
         v == IF run.mt \in Types THEN Walk(Layout(run.mt), toks) ELSE [res |-> "reject", kind |-> "type", tag |-> run.mt] IN
       dev' = IF ~E.ok THEN dev \cup {"PublishFailed"}
              ELSE IF v.res # "accept" THEN dev \cup {"NotInReferenceLayout:" \o v.kind \o ":" \o v.tag}
              ELSE dev
  /\ UNCHANGED <<run, results>>

Validate ==
  /\ IsEvent("validate") /\ stage = "published"
  /\ stage' = "validated"
  /\ dev' = IF ~E.ok THEN dev \cup {"ValidateFailed"}
            ELSE IF ~E.valid \/ E.n > 0 THEN dev \cup {"ValidationErrors:" \o E.first} ELSE dev
  /\ UNCHANGED <<run, results>>

Parse ==
  /\ IsEvent("parse") /\ stage = "validated"
  /\ stage' = "parsed"
  /\ dev' = IF ~E.ok THEN dev \cup {"ParseFailed"}
            ELSE IF ~E.equal THEN dev \cup {"ParsedDiffersFromGenerated:" \o E.where} ELSE dev
  /\ UNCHANGED <<run, results>>

End ==
  /\ IsEvent("end") /\ stage \in {"begun", "generated", "published", "validated", "parsed"}
  /\ results' = IF dev = {} /\ stage = "parsed" THEN results
                ELSE Append(results, [id |-> run.id, scenario |-> run.scenario, mt |-> run.mt, dev |-> dev, stage |-> stage])
  /\ stage' = "idle"
  /\ UNCHANGED <<run, dev>>

TraceNext == Begin \/ Generate \/ Publish \/ Validate \/ Parse \/ End
TraceSpec == TraceInit /\ [][TraceNext]_vars

StageOrder == stage \in {"idle", "begun", "generated", "published", "validated", "parsed"}
Report == (l = Len(Rec) + 1) => PrintT(ToJson([results |-> results, lines |-> Len(Rec)]))
AllLinesExplained ==
  IF TLCGet("stats").diameter - 1 = Len(Rec) THEN TRUE
  ELSE PrintT(<<"UNEXPLAINED", TLCGet("stats").diameter, Rec[TLCGet("stats").diameter]>>) /\ FALSE
=============================================================================
