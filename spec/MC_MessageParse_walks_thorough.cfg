SPECIFICATION Spec
CONSTANTS
  TypesUnderTest <- AllTypes
  K = 2
  MaxMut = 0
  MutKinds <- QuickMuts
  MutateAll = FALSE
  Modes <- AllModes
  EmitCases = TRUE
INVARIANTS
  TypeOK
  UnmutatedAccepted
  NoSilentLoss
  Emit
CHECK_DEADLOCK FALSE
