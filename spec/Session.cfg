SPECIFICATION TraceSpec
INVARIANTS Report
POSTCONDITION AllLinesExplained
CHECK_DEADLOCK FALSE
