SPECIFICATION Spec
CONSTANTS
  Budget = 1
  FieldsUnderTest <- AllFields
  EmitCases = TRUE
INVARIANTS TypicalAccepted NonEmpty Emit
CHECK_DEADLOCK FALSE
