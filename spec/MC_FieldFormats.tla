---------------------------- MODULE MC_FieldFormats ----------------------------
EXTENDS FieldFormats
AllFields == {f.tag : f \in Formats}
=============================================================================
