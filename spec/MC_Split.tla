------------------------------- MODULE MC_Split -------------------------------
(***************************************************************************)
(* Inputs for split_into_sequences / parse_repetitive_sequence: all tag    *)
(* sequences up to MaxLen over the tags the shipped sequence               *)
(* configurations care about.  The reference says only what C16 says: the  *)
(* split is a partition (every occurrence in exactly one sequence, nothing *)
(* added); the design-level statement is PartitionSpec below, which the    *)
(* trace validation (TrackerTrace!EvSplit) evaluates on the recorded call. *)
(***************************************************************************)
EXTENDS Naturals, Sequences, FiniteSets, TLC, Json

CONSTANTS MaxLen, EmitCases
VARIABLES tags
SplitTags == {"20", "21", "32B", "59", "72", "19", "61", "86", "23", "25", "71F", "53A"}
Init == tags = <<>>
Next == Len(tags) < MaxLen /\ \E t \in SplitTags : tags' = Append(tags, t)
Spec == Init /\ [][Next]_tags

(* a split is a function from occurrence index to {"A","B","C"}: a partition by construction *)
PartitionSpec == \A f \in [1..Len(tags) -> {"A", "B", "C"}] :
                    \A i \in 1..Len(tags) : Cardinality({s \in {"A", "B", "C"} : f[i] = s}) = 1
Emit == (EmitCases /\ Len(tags) > 0) => PrintT(ToJson([tags |-> tags]))
=============================================================================
