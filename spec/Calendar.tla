------------------------------ MODULE Calendar ------------------------------
(***************************************************************************)
(* Dates and times as the SWIFT formats carry them: six digits YYMMDD,     *)
(* four digits HHMM, a signed HHMM offset.  The reference meaning of the   *)
(* two-digit year is the library's documented window (swift_utils):        *)
(*        00-49 -> 2000-2049      50-99 -> 1950-1999                        *)
(* and it is ONE meaning: every field type and both representations (MT    *)
(* text, JSON) must agree with it (C11).                                   *)
(* The domain is small enough to be checked without abstraction: TLC       *)
(* verifies the calendar lemmas and emits, per two-digit year, the full    *)
(* year, its leap flag and its day count; the harness walks all 10^6       *)
(* six-digit strings and all 10^4 HHMM strings with the same predicates    *)
(* (cross-checked against the emitted table on every run).                 *)
(***************************************************************************)
EXTENDS Naturals, FiniteSets, TLC, Json

CONSTANTS EmitCases

FullYear(yy) == IF yy <= 49 THEN 2000 + yy ELSE 1900 + yy
Leap(y) == (y % 4 = 0 /\ y % 100 # 0) \/ y % 400 = 0
DaysIn(y, m) == CASE m \in {1, 3, 5, 7, 8, 10, 12} -> 31
                  [] m \in {4, 6, 9, 11} -> 30
                  [] m = 2 -> IF Leap(y) THEN 29 ELSE 28
ValidDate(yy, mm, dd) == yy \in 0..99 /\ mm \in 1..12 /\ dd \in 1..DaysIn(FullYear(yy), mm)
ValidTime(hh, mi) == hh \in 0..23 /\ mi \in 0..59

DaysOfYear(yy) == Cardinality({<<m, d>> \in (1..12) \X (1..31) : ValidDate(yy, m, d)})

VARIABLES yy
Init == yy \in 0..99
Next == UNCHANGED yy
Spec == Init /\ [][Next]_yy

PivotWindowInjective == \A a, b \in 0..99 : a # b => FullYear(a) # FullYear(b)
WindowIs1950To2049   == FullYear(yy) \in 1950..2049
YearLength           == DaysOfYear(yy) = (IF Leap(FullYear(yy)) THEN 366 ELSE 365)
DigitsDetermineDate  == \A m \in 1..12, d \in 1..31 : ValidDate(yy, m, d) => d <= DaysIn(FullYear(yy), m)
ValidTimes           == Cardinality({<<h, m>> \in (0..99) \X (0..99) : ValidTime(h, m)}) = 1440

Emit == EmitCases => PrintT(ToJson([yy |-> yy, full |-> FullYear(yy), leap |-> Leap(FullYear(yy)),
                                    days |-> DaysOfYear(yy)]))
=============================================================================
