SPECIFICATION Spec
CONSTANTS
  MaxWords = 2
  EmitCases = TRUE
INVARIANTS ReturnOnlyIsNotReject LookAlikesDoNotClassify Precedence Emit
CHECK_DEADLOCK FALSE
