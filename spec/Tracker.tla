------------------------------- MODULE Tracker -------------------------------
(***************************************************************************)
(* Sequential consumption of the public tag -> values map                  *)
(* (`FieldConsumptionTracker`, `find_field_with_variant_sequential_*`).    *)
(*                                                                         *)
(* A field map is abstracted to its occurrences: a sequence of records     *)
(* [b, l, pos] (base tag, option letter or "", position stamp), in input   *)
(* order.  The value of an occurrence is a function of its stamp, so       *)
(* "the right value" = "the right stamp".                                  *)
(*                                                                         *)
(* Operations (one action each = one public call):                         *)
(*   Get(tag)         get_next_available: first unconsumed occurrence of   *)
(*                    the exact tag, or none; no state change              *)
(*   Mark(tag, pos)   mark_consumed                                        *)
(*   Find(base, V)    find_..._constrained: consumes and returns the next  *)
(*                    unconsumed occurrence of the exact tag, else the     *)
(*                    earliest unconsumed occurrence of base+letter with   *)
(*                    letter in V (any letter when V is not given):        *)
(*                    occurrences of a base tag come out in input order    *)
(*                                                                         *)
(* Properties (C16): ExactlyOnce, InOrderPerTag, NothingInvented,          *)
(* NoneOnlyWhenExhausted.                                                  *)
(***************************************************************************)
EXTENDS Naturals, Sequences, FiniteSets

VARIABLES occ,       \* the map: Seq of [b, l, pos]
          consumed,  \* set of <<tagstring-record, pos>> marked consumed: [b, l, pos]
          given      \* Seq of occurrences handed out by consuming operations, in call order

tvars == <<occ, consumed, given>>

Occs == {occ[i] : i \in 1..Len(occ)}

Unconsumed(b, l) == {o \in Occs : o.b = b /\ o.l = l /\ o \notin consumed}

MinPos(S) == CHOOSE o \in S : \A p \in S : o.pos <= p.pos

(* first unconsumed occurrence of an exact tag, as a set (empty = none) *)
NextOf(b, l) == IF Unconsumed(b, l) = {} THEN {} ELSE {MinPos(Unconsumed(b, l))}

Letters == {o.l : o \in Occs}

(* what Find(base, V) returns: the next unconsumed occurrence of the exact tag if there is one,
   otherwise the earliest (in input order) unconsumed occurrence among the admissible option
   letters; V = {} stands for "no constraint" *)
VariantCandidates(base, V) ==
  UNION {NextOf(base, l) : l \in {x \in Letters : x # "" /\ (V = {} \/ x \in V)}}
Admissible(base, V) ==
  IF NextOf(base, "") # {} THEN NextOf(base, "")
  ELSE IF VariantCandidates(base, V) = {} THEN {}
  ELSE {MinPos(VariantCandidates(base, V))}

TInit(m) == occ = m /\ consumed = {} /\ given = <<>>

Get(b, l, res) ==          \* res: set with the returned occurrence (or empty)
  /\ res = NextOf(b, l)
  /\ UNCHANGED tvars

Mark(o) ==                 \* o need not exist in the map
  /\ consumed' = consumed \cup {o}
  /\ UNCHANGED <<occ, given>>

Find(base, V, res) ==
  /\ IF Admissible(base, V) = {} THEN res = {}
     ELSE \E o \in Admissible(base, V) : res = {o}
  /\ consumed' = consumed \cup res
  /\ given' = IF res = {} THEN given ELSE Append(given, CHOOSE o \in res : TRUE)
  /\ UNCHANGED occ

(* ------------------------------ properties ------------------------------- *)
ExactlyOnce   == \A i, j \in 1..Len(given) : i # j => given[i] # given[j]
InOrderPerTag == \A i, j \in 1..Len(given) :
                    (i < j /\ given[i].b = given[j].b /\ given[i].l = given[j].l) => given[i].pos < given[j].pos
(* among option letters of one base tag, Find alone hands out in input order (see Admissible) *)
NothingInvented == \A i \in 1..Len(given) : given[i] \in Occs
=============================================================================
