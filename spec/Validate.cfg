SPECIFICATION Spec
CONSTANTS
  MaxGroups = 5
  MaxErrPerGroup = 2
INVARIANTS ProgramComputesRun PrefixLemma EmptinessAgrees AdaptersAgree
CHECK_DEADLOCK FALSE
