------------------------------ MODULE MC_Tracker ------------------------------
(***************************************************************************)
(* Bounded exploration of Tracker.tla: all histories of Get / Mark / Find  *)
(* over a set of small field maps.  The history variable is hidden from    *)
(* the fingerprint (VIEW), so TLC visits every reachable abstract state    *)
(* once; the action constraint prints, for EVERY transition explored, one  *)
(* history (first-found path to the source state + this operation): one    *)
(* implementation test per transition of the specification.                *)
(***************************************************************************)
EXTENDS Tracker, TLC, Json

CONSTANTS MaxDepth, EmitCases

VARIABLES hist, mapid

O(b, l, p) == [b |-> b, l |-> l, pos |-> p]

Maps == <<
  << O("50","K",1), O("50","K",2), O("59","",3) >>,
  << O("50","C",1), O("50","K",2), O("50","L",3), O("50","A",4) >>,
  << O("50","",1), O("50","K",2), O("50","",3) >>,
  << O("50","F",1), O("50","C",2), O("59","A",3), O("59","",4), O("59","A",5) >>,
  << O("20","",1), O("21","",2), O("20","",3), O("21","",4) >>,
  << O("50","K",3), O("50","C",7), O("50","K",9) >>,
  << O("59","F",1), O("59","A",2), O("50","H",3), O("50","G",4) >>,
  << O("50","H",1), O("50","G",2), O("50","F",3) >>,
  << O("50","C",1), O("50","G",2), O("50","F",3), O("50","K",4), O("50","C",5) >>,
  << >>
>>

Tags  == {<<"50","">>, <<"50","K">>, <<"50","C">>, <<"59","">>, <<"59","A">>, <<"20","">>}
Bases == {"50", "59", "20"}
Constraints == {{}, {"C", "L"}, {"A", "F", "K"}, {"A"}, {"F", "G", "H"}, {"C", "K"}}

vars == <<tvars, hist, mapid>>

Init == /\ mapid \in 1..Len(Maps) /\ TInit(Maps[mapid]) /\ hist = <<>>

Res(S) == IF S = {} THEN [none |-> TRUE] ELSE CHOOSE o \in S : TRUE

DoGet == \E t \in Tags :
           /\ Get(t[1], t[2], NextOf(t[1], t[2]))
           /\ hist' = Append(hist, [op |-> "get", b |-> t[1], l |-> t[2]])
DoMark == \E o \in Occs \cup {O("50","K",99)} :
           /\ Mark(o)
           /\ hist' = Append(hist, [op |-> "mark", b |-> o.b, l |-> o.l, pos |-> o.pos])
DoConsume == \E t \in Tags :     \* the documented get-then-mark idiom
           /\ NextOf(t[1], t[2]) # {}
           /\ Mark(CHOOSE o \in NextOf(t[1], t[2]) : TRUE)
           /\ hist' = Append(hist, [op |-> "consume", b |-> t[1], l |-> t[2]])
DoFind == \E base \in Bases, V \in Constraints, S \in SUBSET Occs :
           /\ Cardinality(S) <= 1
           /\ Find(base, V, S)
           /\ hist' = Append(hist, [op |-> "find", b |-> base, v |-> V])

Next == /\ Len(hist) < MaxDepth
        /\ (DoGet \/ DoMark \/ DoConsume \/ DoFind)
        /\ UNCHANGED mapid

Spec == Init /\ [][Next]_vars

View == <<occ, consumed, mapid>>      \* hide hist and given: they add no behaviour

Inv == ExactlyOnce /\ InOrderPerTag /\ NothingInvented

(* `given` is hidden by the VIEW; keep the invariants meaningful by also checking the
   consumption discipline directly on the visible state: *)
ConsumedSane == \A o \in consumed : o \in Occs \/ o = O("50","K",99)

Emit == EmitCases => PrintT(ToJson([map |-> Maps[mapid], ops |-> hist']))
=============================================================================
