SPECIFICATION Spec
CONSTANTS
  MaxDepth = 8
  EmitCases = TRUE
VIEW View
INVARIANTS Inv ConsumedSane
ACTION_CONSTRAINT Emit
CHECK_DEADLOCK FALSE
