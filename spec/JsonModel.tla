----------------------------- MODULE JsonModel -----------------------------
(***************************************************************************)
(* The JSON projection of a parsed message and its inverse.                *)
(*                                                                         *)
(* Abstract message: a sequence of field occurrences [tag, val, seq] where *)
(* seq = 0 for the enclosing message and i >= 1 for the i-th occurrence of *)
(* the repeating sequence.  ToJson groups them:                            *)
(*   top   : tag -> Seq(val)       (a singleton for a non-repeated field)  *)
(*   items : Seq(tag -> Seq(val))  (one object per sequence occurrence,    *)
(*                                   in input order: the "#" array)        *)
(* A tag that does not occur is absent from the object (never an empty     *)
(* sequence): AbsentNotPlaceholder.  FromJson flattens in layout order;    *)
(* within one object repeated values keep their order (OrderPreserved).    *)
(* Publishing is Ser o FromJson.                                           *)
(*                                                                         *)
(* C08 on the design:  FromJ(ToJ(m)) = m  for every message whose    *)
(* tokens are in layout order, and ToJson has no placeholder.              *)
(***************************************************************************)
EXTENDS Naturals, Sequences, FiniteSets, TLC

CONSTANTS Tags, Vals, MaxLen, MaxSeq

(* layout order = the order of Tags as a sequence; top-level fields first, then the sequence occurrences *)
TagOrder == CHOOSE s \in [1..Cardinality(Tags) -> Tags] : \A i, j \in 1..Cardinality(Tags) : i # j => s[i] # s[j]
Rank(t) == CHOOSE i \in 1..Len(TagOrder) : TagOrder[i] = t

Occ == [tag : Tags, val : Vals, seq : 0..MaxSeq]

InLayoutOrder(m) ==
  \A i, j \in 1..Len(m) : i < j =>
     \/ m[i].seq < m[j].seq
     \/ (m[i].seq = m[j].seq /\ Rank(m[i].tag) <= Rank(m[j].tag))
NoGaps(m) == \A i \in 1..Len(m) : m[i].seq > 1 => \E j \in 1..Len(m) : m[j].seq = m[i].seq - 1

SelectVals(m, t, q) == LET idx == {i \in 1..Len(m) : m[i].tag = t /\ m[i].seq = q} IN
                         [k \in 1..Cardinality(idx) |-> m[CHOOSE i \in idx : Cardinality({j \in idx : j < i}) = k - 1].val]
ObjOf(m, q) == [t \in {m[i].tag : i \in {j \in 1..Len(m) : m[j].seq = q}} |-> SelectVals(m, t, q)]
NSeq(m) == IF m = <<>> THEN 0 ELSE LET S == {m[i].seq : i \in 1..Len(m)} IN CHOOSE x \in S : \A y \in S : y <= x
ToJ(m) == [top |-> ObjOf(m, 0), items |-> [q \in 1..NSeq(m) |-> ObjOf(m, q)]]

RECURSIVE FlattenObj(_, _, _)
FlattenObj(obj, q, k) ==        \* tags in layout order, values in array order
  IF k > Len(TagOrder) THEN <<>>
  ELSE (IF TagOrder[k] \in DOMAIN obj
        THEN [i \in 1..Len(obj[TagOrder[k]]) |-> [tag |-> TagOrder[k], val |-> obj[TagOrder[k]][i], seq |-> q]]
        ELSE <<>>) \o FlattenObj(obj, q, k + 1)
RECURSIVE FlattenItems(_, _)
FlattenItems(items, q) == IF q > Len(items) THEN <<>> ELSE FlattenObj(items[q], q, 1) \o FlattenItems(items, q + 1)
FromJ(j) == FlattenObj(j.top, 0, 1) \o FlattenItems(j.items, 1)

VARIABLE m
Init == m \in UNION {[1..n -> Occ] : n \in 0..MaxLen} /\ InLayoutOrder(m) /\ NoGaps(m)
Next == UNCHANGED m
Spec == Init /\ [][Next]_m

RoundTrip == FromJ(ToJ(m)) = m
AbsentNotPlaceholder ==
  /\ \A t \in DOMAIN ToJ(m).top : ToJ(m).top[t] # <<>>
  /\ \A q \in 1..Len(ToJ(m).items) : \A t \in DOMAIN ToJ(m).items[q] : ToJ(m).items[q][t] # <<>>
OrderPreserved ==
  \A t \in Tags, q \in 0..MaxSeq : SelectVals(m, t, q) = SelectVals(FromJ(ToJ(m)), t, q)
=============================================================================
