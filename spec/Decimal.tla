------------------------------- MODULE Decimal -------------------------------
(***************************************************************************)
(* Amounts and rates as digit strings (no floats in the specification).    *)
(*                                                                         *)
(* An abstract amount text is (spelling, n, f): n integer digits, f        *)
(* fraction digits, written in one of the spelling classes below.  The     *)
(* reference accepts exactly the decimal spellings within the field's      *)
(* length limit and the currency's precision:                              *)
(*     digits, one separator (',' -- or '.', which the library documents   *)
(*     as accepted), at least one integer digit, no sign, no exponent,     *)
(*     no NaN / inf, total length <= maxlen, f <= decimals(currency)       *)
(* and the value is preserved exactly by Parse o Format (Canon is          *)
(* idempotent on digit strings).                                           *)
(***************************************************************************)
EXTENDS Naturals, Sequences, FiniteSets, TLC, Json

CONSTANTS IntDigits, FracDigits, EmitCases

(* field -> [maxlen, cur (carries a currency)] *)
Fields == { [f |-> "19",  maxlen |-> 17, cur |-> FALSE], [f |-> "32A", maxlen |-> 15, cur |-> TRUE],
            [f |-> "32B", maxlen |-> 15, cur |-> TRUE],  [f |-> "32C", maxlen |-> 15, cur |-> TRUE],
            [f |-> "32D", maxlen |-> 15, cur |-> TRUE],  [f |-> "33B", maxlen |-> 15, cur |-> TRUE],
            [f |-> "34F", maxlen |-> 15, cur |-> TRUE],  [f |-> "36",  maxlen |-> 12, cur |-> FALSE],
            [f |-> "37H", maxlen |-> 12, cur |-> FALSE],
            \* 37H with its sign letter N written (the rate is read on another path then)
            [f |-> "37HN", maxlen |-> 12, cur |-> FALSE], [f |-> "60F", maxlen |-> 15, cur |-> TRUE],
            [f |-> "60M", maxlen |-> 15, cur |-> TRUE],  [f |-> "61",  maxlen |-> 15, cur |-> FALSE],
            [f |-> "62F", maxlen |-> 15, cur |-> TRUE],  [f |-> "62M", maxlen |-> 15, cur |-> TRUE],
            [f |-> "64",  maxlen |-> 15, cur |-> TRUE],  [f |-> "65",  maxlen |-> 15, cur |-> TRUE],
            [f |-> "71F", maxlen |-> 15, cur |-> TRUE],  [f |-> "71G", maxlen |-> 15, cur |-> TRUE],
            [f |-> "90C", maxlen |-> 15, cur |-> TRUE],  [f |-> "90D", maxlen |-> 15, cur |-> TRUE] }

Precisions == {0, 2, 3, 4}
\* "tiny": integer part 0 and a fraction of f-1 zeros and one digit (0,00005) -- values a float formatter
\* may switch to exponent notation for
DecimalSpellings == {"canon", "dot", "nocomma", "tiny"}
OtherSpellings   == {"plus", "minus", "exp", "nan", "inf", "infinity", "twosep", "space", "hex", "empty"}
Spellings == DecimalSpellings \cup OtherSpellings

\* the decimal comma is part of the d format: a text written without it takes the place the comma needs as well,
\* because it is written back with one -- except next to a currency without decimals, whose amounts the library
\* writes without the comma
TextLen(sp, n, f, commaless) == CASE sp = "nocomma" -> (IF commaless THEN n ELSE n + 1) [] OTHER -> n + 1 + f

Accept(fld, prec, sp, n, f) ==
  /\ sp \in DecimalSpellings
  /\ n >= 1
  /\ (sp = "nocomma" => f = 0)
  /\ TextLen(sp, n, f, fld.cur /\ prec = 0) <= fld.maxlen
  /\ (fld.cur => f <= prec)

(* canonical digit-string form: no leading zeros in int (kept "0"), frac as written *)
Canon(int, frac) == <<int, frac>>
CanonIdempotent == \A i \in {<<1>>, <<1, 0>>}, fr \in {<<>>, <<5>>, <<0, 5>>} :
                      Canon(Canon(i, fr)[1], Canon(i, fr)[2]) = Canon(i, fr)

(* ISO 4217 minor units: every code not listed has two decimals *)
ZeroDecimal  == {"BIF", "CLP", "DJF", "GNF", "ISK", "JPY", "KMF", "KRW", "PYG", "RWF", "UGX", "UYI", "VND", "VUV",
                 "XAF", "XOF", "XPF"}
ThreeDecimal == {"BHD", "IQD", "JOD", "KWD", "LYD", "OMR", "TND"}
FourDecimal  == {"CLF", "UYW"}
TwoDecimalSample == {"USD", "EUR", "GBP", "CHF", "CAD", "AUD", "UYU", "CLE", "BHT", "JPX", "KWT", "MXN",
                     "CNY", "INR", "BRL", "ZAR", "SEK", "NOK", "DKK", "PLN", "SGD", "HKD", "NZD", "TRY"}
CurrencyTable == ZeroDecimal \cup ThreeDecimal \cup FourDecimal \cup TwoDecimalSample
DecimalsOf(c) == IF c \in ZeroDecimal THEN 0 ELSE IF c \in ThreeDecimal THEN 3 ELSE IF c \in FourDecimal THEN 4 ELSE 2

VARIABLES fld, prec, sp, n, f, cur
vars == <<fld, prec, sp, n, f, cur>>
\* cur = "" : the four precision classes with their representative codes; otherwise the currency-table sweep
Init == /\ fld \in Fields
        /\ cur \in {""} \cup (IF fld.f \in {"32B", "60F"} THEN CurrencyTable ELSE {})
        /\ prec \in (IF cur # "" THEN {DecimalsOf(cur)} ELSE IF fld.cur THEN Precisions ELSE {2})

        /\ sp \in Spellings /\ n \in IntDigits
        \* a rate (field 36, 12d) has no currency to bound its fraction: up to 10 fraction digits fit
        /\ f \in (IF fld.f = "36" THEN FracDigits \cup 6..10 ELSE FracDigits)
        /\ (sp \in OtherSpellings \ {"plus", "minus", "twosep", "space"}) => (n = 1 /\ f = 0)
        /\ (sp = "nocomma") => f = 0
        /\ (sp = "tiny") => (n = 1 /\ f >= 1 /\ (fld.f = "36" => f <= 4))
        /\ (cur # "") => (sp = "canon" /\ n = 2 /\ f \in {prec, prec + 1})
        /\ (fld.f = "36") => n <= 5      \* field 36 documents a plausibility range (0.0001 .. 100000)
        /\ (fld.f = "61") => sp \in DecimalSpellings \cup {"plus", "minus"}
                                         \* in 61 the amount is followed by further components, so
                                         \* other spellings change the segmentation (a C05 matter)
Next == UNCHANGED vars
Spec == Init /\ [][Next]_vars

OnlyDecimals       == Accept(fld, prec, sp, n, f) => sp \in DecimalSpellings
PrecisionRespected == (Accept(fld, prec, sp, n, f) /\ fld.cur) => f <= prec
LengthRespected    == Accept(fld, prec, sp, n, f) => TextLen(sp, n, f, fld.cur /\ prec = 0) <= fld.maxlen

TableDisjoint == ZeroDecimal \cap ThreeDecimal = {} /\ ZeroDecimal \cap FourDecimal = {} /\ ThreeDecimal \cap FourDecimal = {}
                 /\ TwoDecimalSample \cap (ZeroDecimal \cup ThreeDecimal \cup FourDecimal) = {}

Emit == EmitCases => PrintT(ToJson([f |-> fld.f, maxlen |-> fld.maxlen, cur |-> fld.cur, code |-> cur, prec |-> prec, sp |-> sp,
                                    n |-> n, fr |-> f, accept |-> Accept(fld, prec, sp, n, f)]))
=============================================================================
