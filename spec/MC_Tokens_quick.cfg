SPECIFICATION Spec
CONSTANTS
  MaxLines = 4
  EmitCases = TRUE
INVARIANTS ScanAgrees TagsFromTLines AllFieldsKept Emit
CHECK_DEADLOCK FALSE
